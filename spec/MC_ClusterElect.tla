---------------------------- MODULE MC_ClusterElect ----------------------------
(* TLC wrapper for the protocol level of C18: every world (initiator and nonce of each good
   connection, kind of each outsider connection) is an initial state.                            *)
EXTENDS ClusterElect
CONSTANTS MaxNonce, Outsiders
GoodWorlds == [Conns \ Outsiders -> [init : {"A", "B"}, nonce : 0..MaxNonce, kind : {"good"}]]
OutWorlds == [Outsiders -> [init : {"X"}, nonce : 0..MaxNonce, kind : {"badcookie", "nameonly"}]]
Worlds == {g @@ o : g \in GoodWorlds, o \in OutWorlds}
Init == \E w \in Worlds : InitWith(w)
Spec == Init /\ [][Next]_vars
Sym == Permutations(Conns \ Outsiders) \cup Permutations(Outsiders)
=============================================================================
