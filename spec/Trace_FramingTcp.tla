------------------------- MODULE Trace_FramingTcp -------------------------
(* Trace validation for the family `wire-tcp`: a real NodeServer with a small max_inbound_frame_size reads scripted
   byte streams from raw TCP connections. From outside only two things show: whether the node answered, and whether it
   closed the connection. The reads themselves are not logged: the reader of Framing takes them silently (always the
   largest read the source allows - chunking does not change what Framing decides, ChunkingIndependent), and a source
   that is held open after `cut` bytes blocks instead of reporting EOF.                                               *)
EXTENDS Framing, Json, IOUtils, TLCExt

Rec == ndJsonDeserialize(IOEnv.TRACE)
N == Len(Rec)

VARIABLES l, hold
tvars == <<vars, l, hold>>
Ev == Rec[l]
Adv == l' = l + 1
Live == l <= N
IsA(a) == Live /\ Ev.a = a

ResetReader == /\ pos' = 0 /\ phase' = "header" /\ fi' = 1 /\ hdr' = 0 /\ got' = 0 /\ reason' = "none"
               /\ decoded' = <<>> /\ maxReq' = 0 /\ lastReq' = 0 /\ preads' = 0
Reset == IsA("reset") /\ Adv /\ stream' = <<>> /\ cut' = 0 /\ hold' = FALSE /\ ResetReader
StreamEv ==
  /\ IsA("obs.stream") /\ Adv
  /\ stream' = [i \in 1..Len(Ev.frames) |-> [len |-> Ev.frames[i].len, cls |-> Ev.frames[i].cls]]
  /\ cut' = Ev.cut /\ hold' = (Ev.hold = 1)
  /\ ResetReader

\* the reader's own steps, none of them logged
Blocked == hold /\ Avail = 0 /\ phase \in {"header", "payload"}
Silent ==
  /\ Live /\ l' = l /\ UNCHANGED hold
  /\ \/ CheckLen
     \/ Decode
     \/ (phase = "header" /\ fi <= Len(stream) /\ Avail > 0 /\ ReadHdr(Min(H - hdr, Avail)))
     \/ (phase = "payload" /\ Avail > 0 /\ ReadPay(Min(PayReq, Avail)))
     \/ (~hold /\ Avail = 0 /\ (ReadHdr(0) \/ ReadPay(0)))
\* past the last scripted frame with the connection held open: the reader waits for a header that never comes
Idle == phase = "header" /\ fi > Len(stream)

End ==
  /\ IsA("obs.end") /\ Adv /\ UNCHANGED <<vars, hold>>
  \* the peer saw the connection closed exactly if the reader closed it; otherwise the reader is waiting for bytes
  /\ IF Ev.closed = 1 THEN phase = "closed" ELSE (Blocked \/ (hold /\ Idle))
  \* no answer without a delivered (valid) frame; an answer to a delivered frame may be lost if the node closes the
  \* connection right afterwards (the session stops before its writer has flushed)
  /\ (Ev.replied = 1 => decoded # <<>>)
  /\ ((Ev.closed = 0 /\ decoded # <<>>) => Ev.replied = 1)

TNext == Reset \/ StreamEv \/ Silent \/ End
TInit == /\ stream = <<>> /\ cut = 0 /\ InitReader /\ l = 1 /\ hold = FALSE /\ TLCSet(42, 1)
TSpec == TInit /\ [][TNext]_tvars
Progress == /\ TLCSet(42, IF l > TLCGet(42) THEN l ELSE TLCGet(42))
            /\ (IF l > N /\ IOEnv.EARLY = "1" THEN PrintT("ACCEPTED_EARLY") /\ TLCSet("exit", TRUE) ELSE TRUE)
Accepted == IF TLCGet(42) > N THEN TRUE
            ELSE /\ PrintT(<<"REJECTED_AT", TLCGet(42), Rec[TLCGet(42)]>>)
                 /\ FALSE
=============================================================================
