------------------------- MODULE Trace_LeakyBucket -------------------------
(* Every recorded call into the real LeakyBucketRateLimiter (constructed and driven on the paused
   tokio clock by the harness, one parameter tuple and one call script per run) must return what
   the operator definitions of LeakyBucket compute; the public `balance` field is compared after
   every call.  The limiter is deterministic, so there is no lenient mode.                        *)
EXTENDS LeakyBucket, Sequences, Json, IOUtils, TLCExt

Rec == ndJsonDeserialize(IOEnv.TRACE)
N == Len(Rec)
VARIABLES l
tvars == <<vars, l>>
Ev == Rec[l]
Adv == l' = l + 1
Live == l <= N
IsA(a) == Live /\ Ev.a = a
Clamp(v) == IF v >= BIG THEN BIG ELSE v
SameB(x) == Clamp(x.balance) = Clamp(Ev.bal)

Reset == /\ IsA("reset") /\ Adv /\ now' = 0 /\ nops' = 0 /\ win' = NoWin /\ ideal' = 0
         /\ b' = New(0, BIG, 0, 0, 0)
TNew == /\ IsA("lb.new") /\ Adv /\ now' = Ev.t /\ nops' = 0 /\ win' = NoWin
        /\ b' = New(Ev.refill, Ev.interval, Ev.max, Ev.initial, Ev.t)
        /\ ideal' = b'.balance /\ SameB(b')
TCheck == /\ IsA("lb.check") /\ Adv /\ now' = Ev.t /\ Ev.t >= now
          /\ b' = Check(b, Ev.t) /\ (Ev.ok = 1) = (b'.balance > 0) /\ SameB(b')
          /\ UNCHANGED <<nops, win, ideal>>
TBump == /\ IsA("lb.bump") /\ Adv /\ now' = Ev.t
         /\ b' = Bump(b) /\ SameB(b')
         /\ UNCHANGED <<nops, win, ideal>>
TNext == Reset \/ TNew \/ TCheck \/ TBump
TInit == /\ now = 0 /\ nops = 0 /\ win = NoWin /\ ideal = 0 /\ b = New(0, BIG, 0, 0, 0) /\ l = 1 /\ TLCSet(42, 1)
TSpec == TInit /\ [][TNext]_tvars
Progress == /\ TLCSet(42, IF l > TLCGet(42) THEN l ELSE TLCGet(42))
            \* EARLY=1 (lenient validation): one behaviour that explains the whole trace is enough, stop there
            /\ (IF l > N /\ IOEnv.EARLY = "1" THEN PrintT("ACCEPTED_EARLY") /\ TLCSet("exit", TRUE) ELSE TRUE)
Accepted == IF TLCGet(42) > N THEN TRUE
            ELSE /\ PrintT(<<"REJECTED_AT", TLCGet(42), Rec[TLCGet(42)]>>)
                 /\ FALSE
=============================================================================
