SPECIFICATION Spec
CONSTANTS
  Actors = {"c1", "col"}
  Collector = "col"
  Ports = {2}
  Plan <- PlanB
  Policies = {"reply", "helper", "sleep", "drop"}
  EnvOps = {"stop", "kill"}
  MaxNow = 3
  VirtualClock = TRUE
INVARIANTS
  TypeOk NoCrossWire Bounded NoEarlyTimeout HolderLive NoHang ForwardOnce MultiComplete
CHECK_DEADLOCK FALSE
