SPECIFICATION Spec
CONSTANTS
  Waiters = {"w1", "w2"}
  MayTime = {"w2"}
  MayJoin = {"w1"}
  MaxRounds = 2
  Cfgs <- CfgsSmall
  RacerOn = TRUE
  LateOn = TRUE
  CheckFirst = FALSE
INVARIANTS
  TypeOK WaitAccurate JoinAccurate NoLostWake NoneParkedAtEnd Monotone CleanupOnce RacerCleanupCompletes
PROPERTIES TimeoutInnocent
CHECK_DEADLOCK FALSE
