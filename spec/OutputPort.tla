---------------------------- MODULE OutputPort ----------------------------
(* ractor/src/port/output.rs, both implementations, at message granularity (finer than one task
   poll, so every poll-level behaviour of engine T is a behaviour of this module).
   Message k of the published stream has payload k; a subscription's converter is a filter on k.
   v1 (default build): a tokio broadcast channel whose ring keeps the last Cap sent values
       (`pubsub::channel(10)`: tokio rounds the capacity up to 16); `send` puts a value in the ring
       only while at least one receiver exists; every subscription owns a receiver (cursor `nx`)
       and a forwarding task that reads it: a cursor that has fallen out of the ring jumps to the
       oldest kept value (`Lagged(n)`), a failed cast ends the task.
   v2 (`output-port-v2`): an unbounded command log (Data k / SetSubscriber s) consumed by one
       fan-out task in batches; a subscription takes effect at its position in the log and receives
       every later Data that its filter maps to Some until a send to it fails.
   Subscribers are the Lifecycle abstraction of an actor with a mailbox.  Decides C16.            *)
EXTENDS Naturals, Sequences, FiniteSets, TLC

CONSTANTS Impl,        \* "v1" | "v2"
          Subs,        \* subscription ids (one per subscribe call)
          SubActors,   \* subscriber actors
          Target,      \* [Subs -> SubActors]                       (model checking)
          Filter,      \* [Subs -> {"all", "even", "odd"}]          (model checking)
          Cap,         \* v1 ring capacity
          MaxBatch,    \* v2: at most this many commands per batch (32)
          MaxPub,      \* bound on the number of published messages
          EnvOps       \* subset of {"stop", "kill", "dropport"}

VARIABLES np,     \* messages published so far
          open,   \* the OutputPort value still exists
          ring,   \* v1: kept values (sequence of message indices), newest last
          tail,   \* v1: number of values ever put in the ring
          cmd,    \* v2: the command log
          fan,    \* v2: commands taken by the fan-out task so far (end of the current batch)
          sub,    \* per subscription
          ac      \* subscriber actors
vars == <<np, open, ring, tail, cmd, fan, sub, ac>>

Pass(f, k) == CASE f = "all" -> TRUE [] f = "even" -> k % 2 = 0 [] f = "odd" -> k % 2 = 1
Data(k) == [c |-> "data", k |-> k, s |-> "none"]
SubCmd(s) == [c |-> "sub", k |-> 0, s |-> s]

InitSub == [st |-> "none",      \* none | queued (v2: SetSubscriber not yet applied) | active | dead (forwarding task finished / removed from the fan-out list)
            a |-> "none", f |-> "all",
            from |-> 0,         \* messages published before the subscribe call
            nx |-> 0,           \* v1: ring position to read next; v2: number of log entries already considered
            last |-> 0,         \* highest index handed to the converter so far
            nlag |-> 0,         \* v1: values skipped by Lagged
            \* subscriber-side monitors
            rlast |-> 0, bad |-> FALSE, gap |-> FALSE]
InitActor == [st |-> "run", stp |-> "none", sig |-> "none", mq |-> <<>>]

Init == /\ np = 0 /\ open = TRUE /\ ring = <<>> /\ tail = 0 /\ cmd = <<>> /\ fan = 0
        /\ sub = [s \in Subs |-> InitSub] /\ ac = [a \in SubActors |-> InitActor]

Accepts(a) == ac[a].st = "run"
Live(s) == sub[s].st = "active"
Oldest == tail - Len(ring)          \* v1: ring position of the oldest kept value
Item(s, k) == [s |-> s, k |-> k]

-----------------------------------------------------------------------------
\* OutputPort::send: never waits for anybody
Publish ==
  /\ open /\ np < MaxPub
  /\ np' = np + 1
  /\ IF Impl = "v1"
       THEN /\ IF \E s \in Subs : Live(s)      \* receiver_count() > 0
                 THEN /\ ring' = (IF Len(ring) = Cap THEN Tail(ring) ELSE ring) \o <<np + 1>>
                      /\ tail' = tail + 1
                 ELSE UNCHANGED <<ring, tail>>
            /\ UNCHANGED cmd
       ELSE cmd' = Append(cmd, Data(np + 1)) /\ UNCHANGED <<ring, tail>>
  /\ UNCHANGED <<open, fan, sub, ac>>

\* OutputPort::subscribe
Subscribe(s, a, f) ==
  /\ open /\ sub[s].st = "none"
  /\ IF Impl = "v1"
       THEN /\ sub' = [sub EXCEPT ![s] = [InitSub EXCEPT !.st = "active", !.a = a, !.f = f, !.from = np, !.nx = tail, !.last = np, !.rlast = np]]
            /\ UNCHANGED cmd
       ELSE /\ sub' = [sub EXCEPT ![s] = [InitSub EXCEPT !.st = "queued", !.a = a, !.f = f, !.from = np, !.nx = Len(cmd) + 1, !.last = np, !.rlast = np]]
            /\ cmd' = Append(cmd, SubCmd(s))
  /\ UNCHANGED <<np, open, ring, tail, fan, ac>>

\* hand message k to subscription s: converter, then cast
Deliver(s, k, r) ==     \* r: the subscription record with its cursor already moved
  LET a == r.a IN
  IF ~Pass(r.f, k) THEN sub' = [sub EXCEPT ![s] = [r EXCEPT !.last = k]] /\ UNCHANGED ac
  ELSE IF Accepts(a) THEN /\ sub' = [sub EXCEPT ![s] = [r EXCEPT !.last = k]]
                          /\ ac' = [ac EXCEPT ![a].mq = Append(@, Item(s, k))]
  ELSE sub' = [sub EXCEPT ![s] = [r EXCEPT !.last = k, !.st = "dead"]] /\ UNCHANGED ac

\* ---- v1: the forwarding task of subscription s
V1Lag(s) ==
  /\ Impl = "v1" /\ Live(s) /\ sub[s].nx < Oldest
  /\ sub' = [sub EXCEPT ![s].nlag = @ + (Oldest - sub[s].nx), ![s].nx = Oldest]
  /\ UNCHANGED <<np, open, ring, tail, cmd, fan, ac>>
V1Read(s) ==
  /\ Impl = "v1" /\ Live(s) /\ sub[s].nx >= Oldest /\ sub[s].nx < tail
  /\ Deliver(s, ring[sub[s].nx - Oldest + 1], [sub[s] EXCEPT !.nx = @ + 1])
  /\ UNCHANGED <<np, open, ring, tail, cmd, fan>>
\* the port is gone and everything kept has been read: Closed
V1Closed(s) ==
  /\ Impl = "v1" /\ Live(s) /\ ~open /\ sub[s].nx >= tail
  /\ sub' = [sub EXCEPT ![s].st = "dead"]
  /\ UNCHANGED <<np, open, ring, tail, cmd, fan, ac>>

\* ---- v2: the fan-out task takes the next batch, then walks it for every subscriber
V2Batch(n) ==
  /\ Impl = "v2" /\ n \in 1..MaxBatch /\ fan + n <= Len(cmd)
  /\ \A s \in Subs : sub[s].st \in {"queued", "active"} => sub[s].nx > fan     \* the previous batch is finished
  /\ fan' = fan + n
  /\ UNCHANGED <<np, open, ring, tail, cmd, sub, ac>>
\* a SetSubscriber command is applied at its position
V2Apply(s) ==
  /\ Impl = "v2" /\ sub[s].st = "queued" /\ sub[s].nx <= fan
  /\ sub' = [sub EXCEPT ![s].st = "active", ![s].nx = @ + 1]
  /\ UNCHANGED <<np, open, ring, tail, cmd, fan, ac>>
V2Step(s) ==
  /\ Impl = "v2" /\ Live(s) /\ sub[s].nx <= fan
  /\ LET c == cmd[sub[s].nx]
         r == [sub[s] EXCEPT !.nx = @ + 1]
     IN IF c.c = "data" THEN Deliver(s, c.k, r) ELSE sub' = [sub EXCEPT ![s] = r] /\ UNCHANGED ac
  /\ UNCHANGED <<np, open, ring, tail, cmd, fan>>

\* ---- subscribers
Stop(a) == ac' = [ac EXCEPT ![a].stp = IF @ = "none" /\ ac[a].st # "dead" THEN "sent" ELSE @]
Kill(a) == ac' = [ac EXCEPT ![a].sig = IF @ = "none" /\ ac[a].st # "dead" THEN "sent" ELSE @]
Rest == <<np, open, ring, tail, cmd, fan, sub>>
EnvStop(a) == "stop" \in EnvOps /\ ac[a].stp = "none" /\ Stop(a) /\ UNCHANGED Rest
EnvKill(a) == "kill" \in EnvOps /\ ac[a].sig = "none" /\ Kill(a) /\ UNCHANGED Rest
TgSig(a) == /\ ac[a].sig = "sent" /\ ac[a].st # "dead"
            /\ ac' = [ac EXCEPT ![a].sig = "taken", ![a].st = "stopping"] /\ UNCHANGED Rest
TgStop(a) == /\ ac[a].st = "run" /\ ac[a].sig # "sent" /\ ac[a].stp = "sent"
             /\ ac' = [ac EXCEPT ![a].stp = "taken", ![a].st = "stopping"] /\ UNCHANGED Rest
TgCleanup(a) == /\ ac[a].st = "stopping" /\ ac[a].sig # "sent"
                /\ ac' = [ac EXCEPT ![a].st = "dead", ![a].mq = <<>>] /\ UNCHANGED Rest
\* the subscriber handles the next forwarded message
Recv(a) ==
  /\ ac[a].st = "run" /\ ac[a].sig # "sent" /\ ac[a].stp # "sent" /\ ac[a].mq # <<>>
  /\ LET it == Head(ac[a].mq)
         s == it.s
         k == it.k
         \* eligible indices between the previous delivery and this one
         skipped == {j \in (sub[s].rlast + 1)..(k - 1) : Pass(sub[s].f, j)}
     IN sub' = [sub EXCEPT ![s].rlast = k,
                           ![s].bad = @ \/ k <= sub[s].rlast \/ k <= sub[s].from \/ ~Pass(sub[s].f, k) \/ sub[s].a # a \/ k > np,
                           ![s].gap = @ \/ skipped # {}]
  /\ ac' = [ac EXCEPT ![a].mq = Tail(@)]
  /\ UNCHANGED <<np, open, ring, tail, cmd, fan>>

DropPort == "dropport" \in EnvOps /\ open /\ open' = FALSE /\ UNCHANGED <<np, ring, tail, cmd, fan, sub, ac>>

Next ==
  \/ Publish \/ DropPort
  \/ \E s \in Subs : Subscribe(s, Target[s], Filter[s]) \/ V1Lag(s) \/ V1Read(s) \/ V1Closed(s) \/ V2Apply(s) \/ V2Step(s)
  \/ \E n \in 1..MaxBatch : V2Batch(n)
  \/ \E a \in SubActors : EnvStop(a) \/ EnvKill(a) \/ TgSig(a) \/ TgStop(a) \/ TgCleanup(a) \/ Recv(a)
Spec == Init /\ [][Next]_vars

-----------------------------------------------------------------------------
(* Properties (C16) *)
\* what a subscriber receives for one subscription is strictly increasing (in order, never twice), lies after the
\* subscription point, passes the converter, and was published
InOrderNoDup == \A s \in Subs : ~sub[s].bad
\* v2: nothing eligible is skipped;  v1: something is skipped only if the receiver lagged (the ring overflowed for it)
NoGapV2 == Impl = "v2" => \A s \in Subs : ~sub[s].gap
GapOnlyWhenLagged == Impl = "v1" => \A s \in Subs : sub[s].gap => sub[s].nlag > 0
\* a forwarder never hands the converter anything out of order either
ForwardMonotone == \A s \in Subs : sub[s].last >= sub[s].from /\ sub[s].rlast <= sub[s].last /\ sub[s].last <= np
\* publishing never depends on subscribers
SendNeverBlocks == (open /\ np < MaxPub) => ENABLED Publish
\* a stopped subscriber does not hold the others back: at quiescence every live subscription of a running subscriber is up
\* to date (v2, and v1 without lag: has received every eligible message after its subscription point)
UpToDate(s) == LET el == {j \in (sub[s].from + 1)..np : Pass(sub[s].f, j)} IN
               (el # {} /\ sub[s].nlag = 0) => sub[s].rlast = CHOOSE j \in el : \A i \in el : i <= j
Quiescent == ~ENABLED (\E s \in Subs : V1Lag(s) \/ V1Read(s) \/ V1Closed(s) \/ V2Apply(s) \/ V2Step(s))
             /\ ~ENABLED (\E n \in 1..MaxBatch : V2Batch(n)) /\ ~ENABLED (\E a \in SubActors : Recv(a) \/ TgSig(a) \/ TgStop(a) \/ TgCleanup(a))
OthersUnaffected == Quiescent => \A s \in Subs : (Live(s) /\ ac[sub[s].a].st = "run") => UpToDate(s)
TypeOk == np \in 0..MaxPub /\ Len(ring) <= Cap /\ fan <= Len(cmd)
=============================================================================
