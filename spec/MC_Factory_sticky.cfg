SPECIFICATION MCSpec
CONSTANTS
  MaxW = 3
  Keys = {1, 2}
  MaxJ = 3
  MaxInc = 5
  LbBig = 1000
  FixRetire = FALSE
  Routing0 = "sticky"
  Workers0 = 2
  Lim0 <- NoLim
  Mode0 = "none"
  RlOn = FALSE
  RlRefill = 1
  RlInterval = 2
  RlMax = 1
  JobKeys <- Keys111
  JobTtl <- NoTtl3
  PortJobs = {}
  Ends = {"ok"}
  MaxKills = 1
  MaxFaults = 0
  Resizes <- Res3
  MayDrain = FALSE
  MaxT = 0
  TStep = 1
  RetryJobs = {}
  Retries = 0
  FreeOrder = FALSE
INVARIANTS
  OneFate PortOk LostOnePerDeath NoFactoryPanic KeyExclusive KeyFifo OneAtATime HashInPool RoundRobinCovers QueuerNoIdle ViewExact
  QueueBound HookOrder PoolConverges DrainComplete DrainRefuses
CHECK_DEADLOCK FALSE
