SPECIFICATION Spec
CONSTANTS
  Actors = {"c1", "c2", "c3"}
  Collector = "none"
  Ports = {1, 2, 3}
  Plan <- PlanD
  Policies = {"reply", "helper", "drop"}
  EnvOps = {"kill"}
  MaxNow = 2
  VirtualClock = TRUE
INVARIANTS
  TypeOk NoCrossWire Bounded NoEarlyTimeout HolderLive NoHang ForwardOnce MultiComplete
CHECK_DEADLOCK FALSE
