SPECIFICATION Spec
CONSTANTS
  Actors = {"S", "A", "B"}
  NoA = "none"
  SupOf <- SupOf3
  MaxMsgs <- MaxMsgs3
  MaxInject <- MaxInject3
  Outcomes = {"ok", "err"}
  MaxYield = 1
  EnvOps <- EnvOps3
  KillCarriesState = FALSE
  Once = TRUE
  Local = {}
  MonPairs = {}
  Undecodable = {}
  SweepKillsDraining = {TRUE}
INVARIANTS
  OrderOk PostStopOnlyGraceful NoOverlap NoStartAfterKill NoHandlerAfterStop KillWins SupBeforeMsg
  OneTerminal TerminalIffRan StartedOrder DeadMeansClean FailedStartSilent DeadLeavesNothing NoChildOfDead
CHECK_DEADLOCK FALSE
