SPECIFICATION Spec
CONSTANTS
  Conns = {c1, c2, c3}
  Outsiders = {c3}
  MaxNonce = 1
SYMMETRY Sym
INVARIANTS
  OneReadyPerPeer VisibleStable OutsiderInert Converged
CHECK_DEADLOCK TRUE
