SPECIFICATION Spec
CONSTANTS
  Actors = {"c1"}
  Collector = "none"
  Ports = {1, 2}
  Plan <- PlanA
  Policies = {"reply", "helper", "sleep"}
  EnvOps = {"stop", "kill"}
  MaxNow = 3
  VirtualClock = FALSE
INVARIANTS
  TypeOk NoCrossWire Bounded NoEarlyTimeout HolderLive NoHang ForwardOnce MultiComplete
CHECK_DEADLOCK FALSE
