------------------------- MODULE Trace_ClusterAuth -------------------------
(* Trace validation for ClusterAuth.
   Level 1 (direct): fsm.init / fsm.step events recorded while the harness walks the trie of
   message sequences over the real ServerAuthenticationProcess / ClientAuthenticationProcess;
   `depth` says from which element of the current path the step was taken.
   Level 2 (session): obs.open / env.send / obs.after / obs.end recorded while an adversary task
   talks to a real NodeSession (opened on a real NodeServer over an in-memory transport) under the
   gated runtime; obs.after carries what the public APIs show once the node is quiescent.       *)
EXTENDS ClusterAuth, Integers, Json, IOUtils, TLCExt

Rec == ndJsonDeserialize(IOEnv.TRACE)
Strict == IOEnv.STRICT = "1"
N == Len(Rec)

VARIABLES l,
          path,    \* level 1: state kinds along the current message sequence
          role1,   \* level 1: which machine
          knows,   \* level 2: the adversary of this run uses the real cookie
          dev,     \* named deviations this run needed
          refl     \* sessions that accepted a relayed digest (the only ones the deviation excuses)
tvars == <<vars, l, path, role1, knows, dev, refl>>
Ev == Rec[l]
Adv == l' = l + 1
Live == l <= N
IsA(a) == Live /\ Ev.a = a
Same == UNCHANGED vars
L1Same == UNCHANGED <<path, role1>>
ND == UNCHANGED <<dev, refl>>

RolesAny == [s \in Sessions |-> {"server", "client"}]
Msg == [c |-> Ev.c, k |-> Ev.k, p |-> Ev.p, n |-> Ev.n]

-----------------------------------------------------------------------------
(* Level 1 *)
FsmInit == /\ IsA("fsm.init") /\ Adv /\ Same /\ UNCHANGED knows /\ ND
           /\ role1' = Ev.role
           /\ path' = <<IF Ev.role = "server" THEN SrvInit ELSE CliInit>>
           /\ Ev.to = path'[1]
StepFrom(from) ==
  IF Ev.c = "op"
    THEN IF Ev.k = "StartChallenge" THEN SrvStartChallenge(from)
         ELSE IF from = "HavePeerName" THEN "WaitingOnClientStatus" ELSE "undefined"
    ELSE IF role1 = "server" THEN SrvNext(from, Msg) ELSE CliNext(from, Msg)
FsmStep == /\ IsA("fsm.step") /\ Adv /\ Same /\ UNCHANGED <<role1, knows>> /\ ND
           /\ Ev.depth \in 1..Len(path)
           /\ path' = Append(SubSeq(path, 1, Ev.depth), StepFrom(path[Ev.depth]))
           /\ Ev.to = StepFrom(path[Ev.depth])

-----------------------------------------------------------------------------
(* Level 2 *)
Plan == IsA("obs.plan") /\ Adv /\ Same /\ L1Same /\ ND /\ knows' = (Ev.knows = 1)
OpenEv == IsA("obs.open") /\ Adv /\ L1Same /\ ND /\ UNCHANGED knows /\ Ev.s \in Sessions /\ Open(Ev.s, Ev.role)
SendEv == /\ IsA("env.send") /\ Adv /\ L1Same /\ UNCHANGED knows /\ Ev.s \in Sessions
          /\ (Ev.c = "auth" /\ Ev.p = "good") => knows      \* a right digest needs the cookie
          /\ Recv(Ev.s, Msg)
          \* a digest the node itself computed on another session and the adversary relayed
          /\ LET used == Reflected(Ev.s, Msg) /\ ss'[Ev.s].everOk /\ ~ss[Ev.s].everOk IN
             /\ dev' = (IF used THEN dev \cup {"DigestReflection"} ELSE dev)
             /\ refl' = (IF used THEN refl \cup {Ev.s} ELSE refl)

Count(q, x) == Cardinality({i \in 1..Len(q) : q[i] = x})
Range(q) == {q[i] : i \in 1..Len(q)}
BagEq(a, b) == Len(a) = Len(b) /\ \A x \in Range(a) \cup Range(b) : Count(a, x) = Count(b, x)
SubBag(a, b) == \A x \in Range(a) : Count(a, x) <= Count(b, x)
SelSeq(q, T(_)) == LET F[i \in 0..Len(q)] == IF i = 0 THEN <<>> ELSE IF T(q[i]) THEN Append(F[i - 1], q[i]) ELSE F[i - 1] IN F[Len(q)]
IsP(e) == e[2] = "adv"
IsQ(e) == e[2] # "adv"
AfterEv ==
  /\ IsA("obs.after") /\ Adv /\ L1Same /\ ND /\ UNCHANGED knows /\ Ev.s \in Sessions
  /\ LET r == ss[Ev.s]
         dp == SelSeq(r.dlv, IsP) IN
     /\ r.role # "none"
     /\ Ev.auth = (IF ~r.alive THEN -1 ELSE IF r.fsm = "Ok" THEN 1 ELSE 0)
     /\ Ev.ready = (IF ~r.alive THEN -1 ELSE IF r.ready = "Ready" THEN 1 ELSE 0)
     /\ Ev.kids = Cardinality(r.proxies)
     /\ Ev.pg = Cardinality({t \in Sessions : ss[t].pgm # {}})     \* one scratch group per run, one proxy per session
     /\ Ev.listed = (IF r.listed THEN 1 ELSE 0)
     \* frames queued for the peer when the session stops may never be written (the transport
     \* actor is killed with its mailbox): a dead session may have delivered fewer
     /\ IF r.alive THEN BagEq(Ev.recv, r.out) ELSE SubBag(Ev.recv, r.out)
     \* what the remotable probe handled, in order; the other probes never see anything
     /\ Len(Ev.hp) = Len(dp) /\ \A i \in 1..Len(dp) : Ev.hp[i] = dp[i][3] /\ Ev.hk[i] = dp[i][1]
     /\ Ev.hq = Len(SelSeq(r.dlv, IsQ)) /\ Ev.hq = 0
     /\ ss' = [ss EXCEPT ![Ev.s].out = <<>>, ![Ev.s].dlv = <<>>] /\ up' = up
End == /\ IsA("obs.end") /\ Adv /\ Same /\ L1Same /\ ND /\ UNCHANGED knows
       /\ (Ev.up = 1) = up
       /\ ~knows => \A s \in Sessions \ refl : ss[s].eff = {} /\ ~ss[s].everOk
       /\ (dev # {} => PrintT(<<"DEVIATION", dev>>))

Reset == /\ IsA("reset") /\ Adv
         /\ ss' = [s \in Sessions |-> NoSession] /\ up' = TRUE
         /\ path' = <<>> /\ role1' = "none" /\ knows' = TRUE /\ dev' = {} /\ refl' = {}

TNext == Reset \/ FsmInit \/ FsmStep \/ Plan \/ OpenEv \/ SendEv \/ AfterEv \/ End
TInit == Init /\ l = 1 /\ path = <<>> /\ role1 = "none" /\ knows = TRUE /\ dev = {} /\ refl = {} /\ TLCSet(42, 1)
TSpec == TInit /\ [][TNext]_tvars
Progress == /\ TLCSet(42, IF l > TLCGet(42) THEN l ELSE TLCGet(42))
            \* EARLY=1 (lenient validation): one behaviour that explains the whole trace is enough, stop there
            /\ (IF l > N /\ IOEnv.EARLY = "1" THEN PrintT("ACCEPTED_EARLY") /\ TLCSet("exit", TRUE) ELSE TRUE)
Accepted == IF TLCGet(42) > N THEN TRUE
            ELSE /\ PrintT(<<"REJECTED_AT", TLCGet(42), Rec[TLCGet(42)]>>)
                 /\ FALSE

\* run-level reading of C17's first clause on the recorded executions
NoCookieNoEffectRun == ~knows => \A s \in Sessions \ refl : ss[s].eff = {} /\ ~ss[s].everOk /\ ~ss[s].listed
=============================================================================
