SPECIFICATION Spec
CONSTANTS
  Timers = {"a", "b", "c"}
  Kinds <- KindsB
  Periods <- PeriodsB
  MaxNow = 4
  EnvOps = {"stop", "fail", "busy", "abort"}
  Stalls = {}
  VirtualClock = TRUE
  Instant = FALSE
  UnstartedKillsInterval = TRUE
INVARIANTS
  TypeOk AfterOnce AfterResult NeverEarly Exact AbortStops NoDeliveryToDead HandledInOrder IntervalEnds Reasons IntervalSurvivesStart
CHECK_DEADLOCK FALSE
