SPECIFICATION Spec
CONSTANTS
  Senders = {s1, s2}
  Probes = {x1}
  Late = {}
  MaxReq = 2
  MaxAbandon = 1
SYMMETRY Sym
INVARIANTS
  Ordered NoCrossWire TagsUnique AnsweredWasDelivered StoppedIsClean ProxyHasOriginal Mirrors
CHECK_DEADLOCK TRUE
