SPECIFICATION Spec
CONSTANTS
  Waiters = {"w1", "w2", "w3"}
  MayTime = {"w3"}
  MayJoin = {"w2"}
  MaxRounds = 1
  Cfgs <- CfgsSmall
  RacerOn = FALSE
  LateOn = FALSE
  CheckFirst = FALSE
INVARIANTS
  TypeOK WaitAccurate JoinAccurate NoLostWake NoneParkedAtEnd Monotone CleanupOnce RacerCleanupCompletes
PROPERTIES TimeoutInnocent
CHECK_DEADLOCK FALSE
