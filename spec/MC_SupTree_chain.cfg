SPECIFICATION Spec
CONSTANTS
  Actors = {"p", "c", "g"}
  NoA = "none"
  InitSup <- SupChain
  InitSt <- StDrainG
  InitMayExit = {"p", "c"}
  LinkOps <- LinkChain
  UnlinkOps <- UnlinkChain
  KillOps = {"p"}
  DrainOps = {"c"}
  MaxEnv = 2
  AllowDev = FALSE
INVARIANTS
  TypeOK TwoSided StoppedIsolated SubtreeSignalled RacingLink SubtreeDies NoDeviation
PROPERTIES
  NoChildOfStopping StatusMonotone
CHECK_DEADLOCK FALSE
