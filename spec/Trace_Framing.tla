--------------------------- MODULE Trace_Framing ---------------------------
(* Trace validation for Framing: the harness feeds (stream, chunking) pairs to the real
   read_network_message through a chunked in-memory reader. Every read() the code issues
   (obs.read: requested size, bytes handed out), every frame.len / frame.buf point and every
   result of read_frame must be an enabled step of Framing.                                     *)
EXTENDS Framing, Json, IOUtils, TLCExt

Rec == ndJsonDeserialize(IOEnv.TRACE)
Strict == IOEnv.STRICT = "1"
N == Len(Rec)

VARIABLE l
tvars == <<vars, l>>
Ev == Rec[l]
Adv == l' = l + 1
Live == l <= N
IsA(a) == Live /\ Ev.a = a
Same == UNCHANGED vars

Internal == {"frame.len", "frame.buf"}
SkipInternal == ~Strict /\ Live /\ Ev.a \in Internal /\ Same /\ Adv

ResetReader == /\ pos' = 0 /\ phase' = "header" /\ fi' = 1 /\ hdr' = 0 /\ got' = 0 /\ reason' = "none"
               /\ decoded' = <<>> /\ maxReq' = 0 /\ lastReq' = 0 /\ preads' = 0
Reset == IsA("reset") /\ Adv /\ stream' = <<>> /\ cut' = 0 /\ ResetReader

\* the run's input: frames (declared length, class) and the number of bytes before EOF
StreamEv ==
  /\ IsA("obs.stream") /\ Adv
  /\ stream' = [i \in 1..Len(Ev.frames) |-> [len |-> Ev.frames[i].len, cls |-> Ev.frames[i].cls]]
  /\ cut' = Ev.cut
  /\ ResetReader

\* one read() issued by the code under test: the size it asked for is the one the model computes
ReadEv ==
  /\ IsA("obs.read") /\ Adv
  /\ IF phase = "header" THEN Ev.req = H - hdr /\ ReadHdr(Ev.n)
     ELSE phase = "payload" /\ Ev.req = PayReq /\ ReadPay(Ev.n)

LenEv == IF Strict THEN IsA("frame.len") /\ phase = "check" /\ Ev.len = Cur.len /\ CheckLen /\ Adv
                   ELSE Live /\ CheckLen /\ l' = l
BufEv == Strict /\ IsA("frame.buf") /\ phase \in {"payload", "decode"} /\ Ev.got = got /\ Ev.len = Cur.len /\ Same /\ Adv

KindOf(r) == IF r = "eof" THEN "eof" ELSE "invalid"
ResultEv ==
  /\ IsA("obs.result") /\ Adv
  /\ IF phase = "decode"
       THEN /\ Decode
            /\ IF Cur.cls = "valid" THEN Ev.ok = 1 /\ Ev.idx = fi /\ Ev.same = 1
                                    ELSE Ev.ok = 0 /\ Ev.kind = "invalid"
       ELSE phase = "closed" /\ Ev.ok = 0 /\ Ev.kind = KindOf(reason) /\ Same

End == /\ IsA("obs.end") /\ Adv /\ Same
       /\ phase = "closed"
       /\ Len(decoded) = Ev.decoded
       /\ Ev.maxreq <= Max2(H, Min(Max, ChunkCap))
       /\ decoded = Expected[1] /\ reason = Expected[2]

TNext == Reset \/ StreamEv \/ ReadEv \/ LenEv \/ BufEv \/ ResultEv \/ End \/ SkipInternal
TInit == /\ stream = <<>> /\ cut = 0 /\ InitReader /\ l = 1 /\ TLCSet(42, 1)
TSpec == TInit /\ [][TNext]_tvars
Progress == /\ TLCSet(42, IF l > TLCGet(42) THEN l ELSE TLCGet(42))
            \* EARLY=1 (lenient validation): one behaviour that explains the whole trace is enough, stop there
            /\ (IF l > N /\ IOEnv.EARLY = "1" THEN PrintT("ACCEPTED_EARLY") /\ TLCSet("exit", TRUE) ELSE TRUE)
Accepted == IF TLCGet(42) > N THEN TRUE
            ELSE /\ PrintT(<<"REJECTED_AT", TLCGet(42), Rec[TLCGet(42)]>>)
                 /\ FALSE
=============================================================================
