-------------------------- MODULE Trace_DecodeDrop --------------------------
(* C19 (b): a serialized payload that does not decode as the actor's message type is dropped: no
   callback, no state change, the actor lives on and handles the good ones in order.
   Reuses Lifecycle / Trace_Lifecycle; the set of undecodable message numbers is per run (obs.plan),
   so Lifecycle's DropUndecodable (constant set) is restated here over the variable `bad`, and a
   handler may only be entered for a decodable message.
   Named deviation LocalDecodeFailureKills: ractor/src/thread_local/inner.rs converts with
   `from_boxed(msg)?` - for a thread-local actor the decode failure is a handler error.        *)
EXTENDS Trace_Lifecycle

CONSTANT AllowLocalDecodeKill   \* TRUE: the deviation is admitted (and reported); FALSE once thread_local/inner.rs drops

VARIABLES bad,     \* message numbers of this run whose payload does not decode
          flavour  \* "send" | "local": which runtime flavour the probe actor of this run is
dvars == <<tvars, bad, flavour>>
DSame == UNCHANGED <<bad, flavour>>
NoSup == [a \in Actors |-> NoA]

PlanEv == /\ Live /\ Ev.a = "obs.plan" /\ Adv /\ Same /\ ND
          /\ bad' = {Ev.bad[i] : i \in 1..Len(Ev.bad)} /\ flavour' = Ev.flavour

DropBad(a) ==
  /\ ac[a].pc = "gotMsg" /\ Ready(a) /\ NoSig(a) /\ ac[a].curMsg \in bad
  /\ Step(a, [ac[a] EXCEPT !.pc = "idle"])
DropEv == IntA("decode.dropped", DropBad) /\ ND /\ DSame

\* the deviation: the failed conversion ends the actor like a handler error would
DevKill(a) ==
  /\ AllowLocalDecodeKill /\ flavour = "local"
  /\ ac[a].pc = "gotMsg" /\ Ready(a) /\ NoSig(a) /\ ac[a].curMsg \in bad
  /\ Step(a, Exiting(ac[a], "err", "err", EvtFailed(a, "err")))
\* no event of its own (the conversion error just propagates): the guard cleanup follows
DevEv == /\ Live /\ l' = l /\ DSame
         /\ IF Strict THEN Ev.a = "guard.cleanup" /\ Ev.x \in Actors /\ DevKill(Ev.x)
                      ELSE \E a \in Actors : DevKill(a)
         /\ dev' = dev \cup {"LocalDecodeFailureKills"} /\ UNCHANGED <<stray, kidop>>

\* a thread-local actor that drops (after a fix) may do so without a hook event of its own
DropSilent == /\ flavour = "local" /\ Live /\ l' = l /\ DSame /\ ND
              /\ (Strict => Ev.a \notin {"decode.dropped", "guard.cleanup"})
              /\ \E a \in Actors : DropBad(a)

DCbEnter == CbEnter /\ (Ev.k = "handle" => Ev.m \notin bad)

DEnd == /\ End /\ DSame
        \* everything sent was taken; an actor that was not told to stop is still there
        /\ \A i \in 1..Len(Ev.fin) : LET a == Ev.fin[i].x IN
             (ac[a].mq = <<>> \/ ac[a].pc = "dead") /\ nsent[a] = Ev.fin[i].sent
             \* (or its handler failed on a decodable message: a failure like any other)
             /\ (dev = {} => (ac[a].pc = "idle" \/ (ac[a].pc = "dead" /\ ac[a].exitK \in {"err", "panic"})))

DReset == Reset /\ bad' = {} /\ flavour' = "send"
DNext == \/ DReset \/ PlanEv \/ DropEv \/ DropSilent \/ DevEv \/ DEnd
         \/ ((DCbEnter \/ CbExit \/ CbBody \/ EnvEv \/ LoopEv \/ SilentRefuse) /\ DSame)
DInit == TInit /\ bad = {} /\ flavour = "send"
DSpec == DInit /\ [][DNext]_dvars
=============================================================================
