SPECIFICATION Spec
CONSTANTS
  Senders = {s1, s2}
  Probes = {x1}
  Late = {}
  MaxReq = 2
  MaxAbandon = 2
  DirOf <- BothSides
  Kinds = {"call"}
  Faults = {"cut", "exit"}
  TagMode = "fresh"
  ResolveMode = "bytag"
  MaxPg = 0
INVARIANTS
  Ordered NoCrossWire TagsUnique AnsweredWasDelivered StoppedIsClean ProxyHasOriginal Mirrors
CHECK_DEADLOCK TRUE
