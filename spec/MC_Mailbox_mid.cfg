SPECIFICATION Spec
CONSTANTS
  Senders = {"s1", "s2"}
  Drainers = {"d1"}
  MsgsPer = 2
  ConsumerMayExit = TRUE
INVARIANTS
  TypeOK NothingAfterMarker MarkerUnique AtMostOnce ErrNeverHandled RealTimeFifo QueueFifo
  AfterDrainReturn DrainEnds OkHandledAtEnd OkNotLostWhileRunning
CHECK_DEADLOCK FALSE
