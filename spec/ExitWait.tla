------------------------------ MODULE ExitWait ------------------------------
(* The exit of one actor seen by the tasks / threads waiting for it (C06).

   Processes:
     "x"  the actor's own task: optional `set_status(Stopping)` of the processing loop
          (ractor/src/actor.rs:924), optional post_stop, then ActorLifecycleGuard::cleanup
          (actor.rs:504-535): set_status(Stopping) -> terminate -> notify_supervisor -> unlink ->
          set_status(Stopped); optionally a late repeated set_status (spawn_linked_remote's failure path)
     "r"  a second, truly concurrent caller of set_status(Stopping)  (no such caller exists in the
          crate -- both calls above are made by the actor's task -- it is modelled to check the
          election by fetch_max's previous value)
     waiters: ActorProperties::wait (actor_properties.rs:365): create Notified -> check status -> await,
          with or without a timeout, repeated; or the actor task's join handle.
   ActorCell::set_status (actor_cell.rs:333) is a sub-procedure `sub[p]` shared by "x" and "r":
     fetch_max -> [elected: pid -> name -> pg demonitor_all -> pg leave_all] -> [first Stopped:
     notify_waiters -> notify_one].
   tokio::sync::Notify (1.53): `epoch` = number of notify_waiters calls, `permit` = stored notify_one,
   `parked` = wait list. A Notified remembers the epoch of its creation; its first poll completes if
   the epoch moved, else consumes the permit, else enqueues.

   One action per verif::point; the label is given with each action.                                *)
EXTENDS Naturals, FiniteSets, TLC

CONSTANTS Waiters,      \* waiter process ids
          MayTime,      \* waiters whose wait may carry a timeout
          MayJoin,      \* waiters that may await the join handle instead
          MaxRounds,    \* waits per waiter
          Cfgs,         \* set of records [named, inpg, hsup, kids]: what the actor is enrolled in
          RacerOn,      \* BOOLEAN: process "r" exists
          LateOn,       \* BOOLEAN: "x" may repeat set_status after the guard is done
          CheckFirst    \* BOOLEAN: mutant of wait(): status check before creating Notified (sanity configs)

Running == 2  Upgrading == 3  Stopping == 5  Stopped == 6
Max(a, b) == IF a > b THEN a ELSE b
Procs == {"x", "r"}

VARIABLES cf,        \* the configuration of this behaviour (element of Cfgs)
          st,        \* status: AtomicU8
          reg,       \* [name, pid, mon, mem]: still enrolled in name registry / pid registry / pg monitors / pg groups
          sub,       \* per caller of set_status: position inside the call
          subv,      \* per caller: [v: value being set, notify: this call won the first transition to Stopped]
          elected,   \* who won the cleanup election ("none", "x", "r")
          nElect, nNotify,   \* monitors: number of elections / notify_stop_listener executions
          xpc,       \* outer position of "x"
          evt,       \* the guard was given a terminal event
          ps,        \* post_stop: "no" | "in" | "done"
          pend, cur, sig,    \* terminate(): children still to process, child being processed, children sent Kill
          taken, sigd,       \* children already taken off the actor's child map; the Kill signal was handled
          sup,       \* [linked, sent, handled]
          rpc,       \* "idle" | "called"
          late,      \* number of late calls made
          epoch, permit, parked,     \* Notify
          wpc, wepoch, wt, round, okret,    \* waiters: pc, creation epoch, [timed, kind], rounds done, some wait returned Ok
          stLow      \* monitor: status was observed to decrease

vars == <<cf, st, reg, sub, subv, elected, nElect, nNotify, xpc, evt, ps, pend, cur, sig, taken, sigd, sup, rpc, late,
          epoch, permit, parked, wpc, wepoch, wt, round, okret, stLow>>
actorVars == <<cf, st, reg, sub, subv, elected, nElect, nNotify, xpc, evt, ps, pend, cur, sig, taken, sigd, sup, rpc, late, stLow>>
notifyVars == <<epoch, permit, parked>>
waiterVars == <<wpc, wepoch, wt, round, okret>>

NoKid == "nokid"
InitWith(c) ==
  /\ cf = c /\ st = Running
  /\ reg = [name |-> c.named, pid |-> TRUE, mon |-> c.inpg, mem |-> c.inpg]
  /\ sub = [p \in Procs |-> "idle"] /\ subv = [p \in Procs |-> [v |-> 0, notify |-> FALSE]]
  /\ elected = "none" /\ nElect = 0 /\ nNotify = 0
  /\ xpc = "run" /\ evt = FALSE /\ ps = "no"
  /\ pend = {} /\ cur = NoKid /\ sig = {} /\ taken = {} /\ sigd = FALSE
  /\ sup = [linked |-> c.hsup, sent |-> FALSE, handled |-> FALSE]
  /\ rpc = "idle" /\ late = 0
  /\ epoch = 0 /\ permit = FALSE /\ parked = {}
  /\ wpc = [w \in Waiters |-> "idle"] /\ wepoch = [w \in Waiters |-> 0]
  /\ wt = [w \in Waiters |-> [timed |-> FALSE, kind |-> "wait"]]
  /\ round = [w \in Waiters |-> 0] /\ okret = FALSE /\ stLow = FALSE
Init == \E c \in Cfgs : InitWith(c)

-----------------------------------------------------------------------------
(* ActorCell::set_status(v) called by p, v >= Stopping *)

\* ActorProperties::set_status: fetch_max; point status.set(d = v, prev)
FetchMax(p, v) ==
  /\ sub[p] = "idle"
  /\ st' = Max(st, v) /\ stLow' = (stLow \/ Max(st, v) < st)
  /\ LET win == st < Stopping
         ntf == v = Stopped /\ st < Stopped
     IN /\ subv' = [subv EXCEPT ![p] = [v |-> v, notify |-> ntf]]
        /\ elected' = (IF win THEN p ELSE elected)
        /\ nElect' = (IF win THEN nElect + 1 ELSE nElect)
        /\ sub' = [sub EXCEPT ![p] = IF win THEN "pid" ELSE IF ntf THEN "nw" ELSE "idle"]
AfterCleanup(p) == IF subv[p].notify THEN "nw" ELSE "idle"
\* pid_registry::demonitor + unregister_pid; point cleanup.pid
SPid(p) ==
  /\ sub[p] = "pid" /\ reg' = [reg EXCEPT !.pid = FALSE]
  /\ sub' = [sub EXCEPT ![p] = IF cf.named THEN "name" ELSE "pgmon"]
  /\ UNCHANGED <<cf, st, subv, elected, nElect, nNotify, xpc, evt, ps, pend, cur, sig, taken, sigd, sup, rpc, late, stLow, notifyVars, waiterVars>>
\* registry::unregister(name); point cleanup.name
SName(p) ==
  /\ sub[p] = "name" /\ reg' = [reg EXCEPT !.name = FALSE] /\ sub' = [sub EXCEPT ![p] = "pgmon"]
  /\ UNCHANGED <<cf, st, subv, elected, nElect, nNotify, xpc, evt, ps, pend, cur, sig, taken, sigd, sup, rpc, late, stLow, notifyVars, waiterVars>>
\* pg::demonitor_all; point cleanup.pgmon
SPgMon(p) ==
  /\ sub[p] = "pgmon" /\ reg' = [reg EXCEPT !.mon = FALSE] /\ sub' = [sub EXCEPT ![p] = "pgleave"]
  /\ UNCHANGED <<cf, st, subv, elected, nElect, nNotify, xpc, evt, ps, pend, cur, sig, taken, sigd, sup, rpc, late, stLow, notifyVars, waiterVars>>
\* pg::leave_all; point cleanup.pgleave
SPgLeave(p) ==
  /\ sub[p] = "pgleave" /\ reg' = [reg EXCEPT !.mem = FALSE] /\ sub' = [sub EXCEPT ![p] = AfterCleanup(p)]
  /\ UNCHANGED <<cf, st, subv, elected, nElect, nNotify, xpc, evt, ps, pend, cur, sig, taken, sigd, sup, rpc, late, stLow, notifyVars, waiterVars>>
\* Notify::notify_waiters: bump the epoch, wake everybody in the wait list; point notify.waiters
SNotifyWaiters(p) ==
  /\ sub[p] = "nw" /\ epoch' = epoch + 1
  /\ wpc' = [w \in Waiters |-> IF w \in parked THEN "woken" ELSE wpc[w]] /\ parked' = {}
  /\ nNotify' = nNotify + 1 /\ sub' = [sub EXCEPT ![p] = "n1"]
  /\ UNCHANGED <<cf, st, reg, subv, elected, nElect, xpc, evt, ps, pend, cur, sig, taken, sigd, sup, rpc, late, stLow, permit, wepoch, wt, round, okret>>
\* Notify::notify_one: wake one parked waiter or store the permit; point notify.one
SNotifyOne(p) ==
  /\ sub[p] = "n1"
  /\ IF parked # {}
       THEN \E w \in parked : parked' = parked \ {w} /\ wpc' = [wpc EXCEPT ![w] = "woken"] /\ UNCHANGED permit
       ELSE permit' = TRUE /\ UNCHANGED <<parked, wpc>>
  /\ sub' = [sub EXCEPT ![p] = "idle"]
  /\ UNCHANGED <<cf, st, reg, subv, elected, nElect, nNotify, xpc, evt, ps, pend, cur, sig, taken, sigd, sup, rpc, late, stLow, epoch, wepoch, wt, round, okret>>
SubStep(p) == SPid(p) \/ SName(p) \/ SPgMon(p) \/ SPgLeave(p) \/ SNotifyWaiters(p) \/ SNotifyOne(p)

-----------------------------------------------------------------------------
(* "x": the actor's task *)
XIdle == sub["x"] = "idle"
\* no terminate() loop in progress
TermIdle == pend = {} /\ cur = NoKid
\* A Kill signal is picked up (handle_signal, actor.rs:1137): a post_stop in progress is dropped, terminate() runs at
\* once: the children are taken off the map; label term.take(obj = actor). (The preceding kill() of the actor itself is
\* a no-op on the already used signal port and is not traced.)
XSigTerm ==
  /\ ~sigd /\ TermIdle /\ XIdle
  /\ xpc = "run" \/ (xpc = "ps" /\ ps = "in")
  /\ sigd' = TRUE /\ pend' = cf.kids \ taken /\ taken' = cf.kids
  /\ ps' = (IF ps = "in" THEN "cancelled" ELSE ps)
  /\ UNCHANGED <<cf, st, reg, sub, subv, elected, nElect, nNotify, xpc, evt, cur, sig, sup, rpc, late, stLow, notifyVars, waiterVars>>
\* processing loop left: myself.set_status(Stopping) (actor.rs:924); label status.set
XLoopSet ==
  /\ xpc = "run" /\ TermIdle /\ FetchMax("x", Stopping) /\ xpc' = "pre"
  /\ UNCHANGED <<cf, reg, nNotify, evt, ps, pend, cur, sig, taken, sigd, sup, rpc, late, notifyVars, waiterVars>>
\* post_stop (graceful exits only); labels obs.ps_begin / obs.ps_end
XPostStopBegin ==
  /\ xpc = "pre" /\ XIdle /\ ps = "no" /\ ~sigd /\ ps' = "in" /\ xpc' = "ps"
  /\ UNCHANGED <<cf, st, reg, sub, subv, elected, nElect, nNotify, evt, pend, cur, sig, taken, sigd, sup, rpc, late, stLow, notifyVars, waiterVars>>
XPostStopEnd ==
  /\ xpc = "ps" /\ ps = "in" /\ ps' = "done"
  /\ UNCHANGED <<cf, st, reg, sub, subv, elected, nElect, nNotify, xpc, evt, pend, cur, sig, taken, sigd, sup, rpc, late, stLow, notifyVars, waiterVars>>
\* ActorLifecycleGuard::cleanup entered (finish(evt) or Drop); label guard.cleanup(d = evt)
XGuardBegin(e) ==
  /\ TermIdle
  /\ \/ xpc = "run"
     \/ xpc = "pre" /\ XIdle
     \/ xpc = "ps"     \* ps = "in": the task was aborted inside post_stop (the guard runs from Drop)
  /\ xpc' = "g0" /\ evt' = e /\ ps' = (IF ps = "in" THEN "cancelled" ELSE ps)
  /\ UNCHANGED <<cf, st, reg, sub, subv, elected, nElect, nNotify, pend, cur, sig, taken, sigd, sup, rpc, late, stLow, notifyVars, waiterVars>>
\* guard: set_status(Stopping); label status.set
XGuardSet ==
  /\ xpc = "g0" /\ FetchMax("x", Stopping) /\ xpc' = "g5"
  /\ UNCHANGED <<cf, reg, nNotify, evt, ps, pend, cur, sig, taken, sigd, sup, rpc, late, notifyVars, waiterVars>>
\* terminate(): the actor itself is >= Stopping (no kill), its remaining children are taken; label term.take(obj = actor)
XTermSelf ==
  /\ xpc = "g5" /\ XIdle /\ pend' = cf.kids \ taken /\ taken' = cf.kids /\ xpc' = "term"
  /\ UNCHANGED <<cf, st, reg, sub, subv, elected, nElect, nNotify, evt, ps, cur, sig, sigd, sup, rpc, late, stLow, notifyVars, waiterVars>>
\* child k is Running: kill(); label term.kill(obj = k)
XTermKill(k) ==
  /\ cur = NoKid /\ k \in pend /\ cur' = k /\ sig' = sig \cup {k}
  /\ UNCHANGED <<cf, st, reg, sub, subv, elected, nElect, nNotify, xpc, evt, ps, pend, taken, sigd, sup, rpc, late, stLow, notifyVars, waiterVars>>
\* take_children(k); label term.take(obj = k)
XTermTake(k) ==
  /\ cur = k /\ k # NoKid /\ cur' = NoKid /\ pend' = pend \ {k}
  /\ UNCHANGED <<cf, st, reg, sub, subv, elected, nElect, nNotify, xpc, evt, ps, sig, taken, sigd, sup, rpc, late, stLow, notifyVars, waiterVars>>
\* label guard.terminated
XTermDone ==
  /\ xpc = "term" /\ TermIdle /\ xpc' = "gterm"
  /\ UNCHANGED <<cf, st, reg, sub, subv, elected, nElect, nNotify, evt, ps, pend, cur, sig, taken, sigd, sup, rpc, late, stLow, notifyVars, waiterVars>>
\* notify_supervisor(event) when an event was given; label guard.notified
XNotifySup ==
  /\ xpc = "gterm" /\ xpc' = "gnot"
  /\ sup' = [sup EXCEPT !.sent = sup.linked /\ evt]
  /\ UNCHANGED <<cf, st, reg, sub, subv, elected, nElect, nNotify, evt, ps, pend, cur, sig, taken, sigd, rpc, late, stLow, notifyVars, waiterVars>>
\* unlink from the supervisor; label guard.unlinked
XUnlink ==
  /\ xpc = "gnot" /\ xpc' = "gunl" /\ sup' = [sup EXCEPT !.linked = FALSE]
  /\ UNCHANGED <<cf, st, reg, sub, subv, elected, nElect, nNotify, evt, ps, pend, cur, sig, taken, sigd, rpc, late, stLow, notifyVars, waiterVars>>
\* guard: set_status(Stopped); label status.set
XGuardStop ==
  /\ xpc = "gunl" /\ FetchMax("x", Stopped) /\ xpc' = "g6"
  /\ UNCHANGED <<cf, reg, nNotify, evt, ps, pend, cur, sig, taken, sigd, sup, rpc, late, notifyVars, waiterVars>>
\* label guard.done
XGuardDone ==
  /\ xpc = "g6" /\ XIdle /\ xpc' = "done"
  /\ UNCHANGED <<cf, st, reg, sub, subv, elected, nElect, nNotify, evt, ps, pend, cur, sig, taken, sigd, sup, rpc, late, stLow, notifyVars, waiterVars>>
\* a repeated, late set_status by the same task; label status.set
XLate(v) ==
  /\ LateOn /\ xpc = "done" /\ late < 2 /\ v \in {Stopping, Stopped} /\ FetchMax("x", v) /\ late' = late + 1
  /\ UNCHANGED <<cf, reg, nNotify, xpc, evt, ps, pend, cur, sig, taken, sigd, sup, rpc, notifyVars, waiterVars>>
XDone == xpc = "done" /\ XIdle

\* the supervisor's task picks the event up (engine T observes the handler)
SupHandle ==
  /\ sup.sent /\ ~sup.handled /\ sup' = [sup EXCEPT !.handled = TRUE]
  /\ UNCHANGED <<cf, st, reg, sub, subv, elected, nElect, nNotify, xpc, evt, ps, pend, cur, sig, taken, sigd, rpc, late, stLow, notifyVars, waiterVars>>

XStep == XSigTerm \/ XLoopSet \/ XPostStopBegin \/ XPostStopEnd \/ (\E e \in BOOLEAN : XGuardBegin(e)) \/ XGuardSet \/ XTermSelf
         \/ (\E k \in cf.kids : XTermKill(k) \/ XTermTake(k)) \/ XTermDone \/ XNotifySup \/ XUnlink \/ XGuardStop
         \/ XGuardDone \/ (\E v \in {Stopping, Stopped} : XLate(v)) \/ SubStep("x")

(* "r": a concurrent set_status(Stopping) *)
RSet ==
  /\ RacerOn /\ rpc = "idle" /\ FetchMax("r", Stopping) /\ rpc' = "called"
  /\ UNCHANGED <<cf, reg, nNotify, xpc, evt, ps, pend, cur, sig, taken, sigd, sup, late, notifyVars, waiterVars>>
RStep == RSet \/ SubStep("r")
RDone == ~RacerOn \/ rpc = "idle" \/ sub["r"] = "idle"

-----------------------------------------------------------------------------
(* Waiters *)
WBegin(w, timed, kind) ==
  /\ wpc[w] = "idle" /\ round[w] < MaxRounds
  /\ (timed => w \in MayTime) /\ (kind = "join" => w \in MayJoin /\ ~timed)
  /\ wt' = [wt EXCEPT ![w] = [timed |-> timed, kind |-> kind]]
  /\ wpc' = [wpc EXCEPT ![w] = IF kind = "join" THEN "jwait" ELSE "start"]
  /\ UNCHANGED <<actorVars, notifyVars, wepoch, round, okret>>
\* wait_handler.notified(): the future remembers the current epoch; label wait.created
WCreate(w) ==
  /\ wpc[w] = (IF CheckFirst THEN "prechecked" ELSE "start")
  /\ wepoch' = [wepoch EXCEPT ![w] = epoch] /\ wpc' = [wpc EXCEPT ![w] = IF CheckFirst THEN "checked" ELSE "created"]
  /\ UNCHANGED <<actorVars, notifyVars, wt, round, okret>>
\* status load: Stopped -> return without awaiting (label wait.done); otherwise label wait.checked
WCheck(w) ==
  /\ wpc[w] = (IF CheckFirst THEN "start" ELSE "created")
  /\ wpc' = [wpc EXCEPT ![w] = IF st = Stopped THEN "ret" ELSE IF CheckFirst THEN "prechecked" ELSE "checked"]
  /\ UNCHANGED <<actorVars, notifyVars, wepoch, wt, round, okret>>
\* first poll of Notified: epoch moved -> ready; permit -> consume, ready (label wait.done); else enqueue (label obs.wait_pending)
WPoll(w) ==
  /\ wpc[w] = "checked"
  /\ IF wepoch[w] # epoch THEN wpc' = [wpc EXCEPT ![w] = "ret"] /\ UNCHANGED <<permit, parked>>
     ELSE IF permit THEN permit' = FALSE /\ wpc' = [wpc EXCEPT ![w] = "ret"] /\ UNCHANGED parked
     ELSE parked' = parked \cup {w} /\ wpc' = [wpc EXCEPT ![w] = "parked"] /\ UNCHANGED permit
  /\ UNCHANGED <<actorVars, epoch, wepoch, wt, round, okret>>
\* re-poll after the wake-up; label wait.done
WWake(w) ==
  /\ wpc[w] = "woken" /\ wpc' = [wpc EXCEPT ![w] = "ret"]
  /\ UNCHANGED <<actorVars, notifyVars, wepoch, wt, round, okret>>
\* the timeout fired and the re-poll found the wait still pending: the Notified is dropped (leaves the list)
WTimeout(w) ==
  /\ wpc[w] = "parked" /\ wt[w].timed /\ wpc' = [wpc EXCEPT ![w] = "tout"] /\ parked' = parked \ {w}
  /\ UNCHANGED <<actorVars, epoch, permit, wepoch, wt, round, okret>>
\* return to the caller; label obs.wait_ret
WReturn(w) ==
  /\ wpc[w] \in {"ret", "tout"}
  /\ wpc' = [wpc EXCEPT ![w] = "idle"] /\ round' = [round EXCEPT ![w] = @ + 1]
  /\ okret' = (okret \/ wpc[w] = "ret")
  /\ UNCHANGED <<actorVars, notifyVars, wepoch, wt>>
\* the join handle completes when the actor's task has ended
WJoinRet(w) ==
  /\ wpc[w] = "jwait" /\ xpc = "done" /\ wpc' = [wpc EXCEPT ![w] = "ret"]
  /\ UNCHANGED <<actorVars, notifyVars, wepoch, wt, round, okret>>
WStep(w) == (\E t \in BOOLEAN, k \in {"wait", "join"} : WBegin(w, t, k)) \/ WCreate(w) \/ WCheck(w) \/ WPoll(w)
            \/ WWake(w) \/ WTimeout(w) \/ WReturn(w) \/ WJoinRet(w)

Next == XStep \/ RStep \/ SupHandle \/ \E w \in Waiters : WStep(w)
Spec == Init /\ [][Next]_vars
FairSpec == Spec /\ WF_vars(XStep) /\ WF_vars(RStep) /\ \A w \in Waiters : WF_vars(WStep(w))

-----------------------------------------------------------------------------
(* Properties *)
TypeOK ==
  /\ st \in {Running, Stopping, Stopped}
  /\ \A p \in Procs : sub[p] \in {"idle", "pid", "name", "pgmon", "pgleave", "nw", "n1"}
  /\ \A w \in Waiters : wpc[w] \in {"idle", "start", "prechecked", "created", "checked", "parked", "woken", "ret", "tout", "jwait"}
  /\ parked \subseteq Waiters /\ \A w \in parked : wpc[w] = "parked"

\* effects of the guard's own steps, and of the elected registry / pg cleanup
GuardEffects == /\ ps # "in" /\ pend = {} /\ cur = NoKid /\ sig = cf.kids
                /\ ~sup.linked /\ ((cf.hsup /\ evt) => sup.sent)
RegEffects == ~reg.name /\ ~reg.pid /\ ~reg.mon /\ ~reg.mem
\* C06: a wait that returned Ok saw the fully stopped actor. With the (hypothetical) concurrent caller "r" winning
\* the election the registry effects are only owed once "r" has returned.
WaitAccurate ==
  (okret \/ \E w \in Waiters : wpc[w] = "ret") =>
     /\ st = Stopped /\ GuardEffects
     /\ (elected # "r" \/ sub["r"] = "idle") => RegEffects
\* the join handle implies the same, plus the end of the task
JoinAccurate == \A w \in Waiters : (wpc[w] = "ret" /\ wt[w].kind = "join") => xpc = "done"
\* C06: no lost wake-up -- once the exit is complete and no waiter can move, nobody is parked
NoLostWake == (XDone /\ RDone /\ \A w \in Waiters : ~ENABLED WStep(w)) => \A w \in Waiters : wpc[w] # "parked"
\* direct form: after the exit only a wait with a timeout can still be parked (and it will time out)
NoneParkedAtEnd == (XDone /\ RDone) => \A w \in Waiters : wpc[w] = "parked" => wt[w].timed
Monotone == ~stLow
CleanupOnce == nElect <= 1 /\ nNotify <= 1 /\ (st >= Stopping => nElect = 1) /\ (XDone => nNotify = 1)
\* a timed-out wait changed nothing but the waiter itself
TimeoutInnocent == [][\A w \in Waiters : WTimeout(w) => UNCHANGED <<actorVars, epoch, permit>>]_vars
RacerCleanupCompletes == (elected = "r" /\ sub["r"] = "idle" /\ XDone) => RegEffects
\* liveness (fair configs): every waiter finishes all its rounds once the exit has begun
AllWaitersFinish == (xpc # "run") ~> (\A w \in Waiters : wpc[w] = "idle" /\ round[w] = MaxRounds)
=============================================================================
