SPECIFICATION Spec
CONSTANTS
  Senders = {s1}
  Probes = {x1}
  Late = {}
  MaxReq = 0
  MaxAbandon = 0
  DirOf <- SameSide
  Kinds = {"cast"}
  Faults = {"cut"}
  TagMode = "fresh"
  ResolveMode = "bytag"
  MaxPg = 2
INVARIANTS
  Ordered NoCrossWire TagsUnique AnsweredWasDelivered StoppedIsClean ProxyHasOriginal Mirrors
CHECK_DEADLOCK TRUE
