---------------------------- MODULE MC_Mailbox ----------------------------
EXTENDS Mailbox
\* fingerprint view without the logical clock (used only for graph dumps)
ViewNoHist == <<status, adm, q, rxClosed, spc, sk, sprev, sres, dpc, handled, cexit>>
=============================================================================
