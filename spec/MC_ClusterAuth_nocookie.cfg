SPECIFICATION Spec
CONSTANTS
  Sessions = {"s1"}
  Roles <- RolesBoth
  KnowsCookie = FALSE
  CheckReplies = {"Ok", "OkSimultaneous", "NotOk", "Alive"}
  Acc = FALSE
  Reflection = FALSE
  CtlKinds = {"Spawn", "PgJoin", "PgLeave", "Terminate", "Ready", "Ping", "Enum"}
  PidClasses = {"adv", "unadv", "nonrem", "none", "r1"}
INVARIANTS
  NoCookieNoEffect CloseAbsorbing EffectsOnlyAfterHandshake DeliverOnlyAuthorized OwnFaultOnly DeadIsClean
CHECK_DEADLOCK FALSE
