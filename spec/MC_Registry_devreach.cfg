SPECIFICATION Spec
CONSTANTS
  Spawners = {"s1", "s2"}
  MaxAtt = 1
  Lookers = {"l1"}
  MaxLook = 1
  Proxies = {"p1"}
  PidFaults = FALSE
  ProxyUnregisters = TRUE
  Mutant = "none"
INVARIANTS NoDev
PROPERTIES FailedSpawnInnocent
CHECK_DEADLOCK FALSE
