SPECIFICATION TSpec
CONSTANTS
  Senders = {"s1", "s2", "s3"}
  Probes = {"x1", "x2", "x3"}
  Late = {}
  MaxReq = 6
  MaxAbandon = 100
  DirOf <- TrDirOf
  Kinds = {"cast", "call"}
  Faults = {"exit", "cut"}
  MaxPg = 1000
  TagMode = "fresh"
  ResolveMode = "bytag"
CONSTRAINT Progress
INVARIANTS
  Ordered NoCrossWire TagsUnique StoppedIsClean ProxyHasOriginal
POSTCONDITION Accepted
CHECK_DEADLOCK FALSE
