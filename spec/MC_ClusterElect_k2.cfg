SPECIFICATION Spec
CONSTANTS
  Conns = {c1, c2}
  Outsiders = {}
  MaxNonce = 2
SYMMETRY Sym
INVARIANTS
  OneReadyPerPeer VisibleStable OutsiderInert Converged
CHECK_DEADLOCK TRUE
