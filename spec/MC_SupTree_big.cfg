SPECIFICATION Spec
CONSTANTS
  Actors = {"p", "c", "g", "q"}
  NoA = "none"
  InitSup <- SupChain
  InitSt <- StDrainG
  InitMayExit = {"p", "c"}
  LinkOps <- LinkBig
  UnlinkOps <- UnlinkBig
  KillOps = {"p", "c"}
  DrainOps = {"c", "p"}
  MaxEnv = 2
  AllowDev = FALSE
INVARIANTS
  TypeOK TwoSided StoppedIsolated SubtreeSignalled RacingLink SubtreeDies NoDeviation
PROPERTIES
  NoChildOfStopping StatusMonotone
CHECK_DEADLOCK FALSE
