SPECIFICATION TSpec
CONSTANTS
  Sessions = {"s1", "s2"}
  Roles <- RolesAny
  KnowsCookie = TRUE
  CheckReplies = {"Ok", "OkSimultaneous", "NotOk", "Alive"}
  Acc = TRUE
  Reflection = TRUE
  CtlKinds <- AllCtlKinds
  PidClasses = {"adv", "unadv", "nonrem", "none", "r1"}
CONSTRAINT Progress
INVARIANTS
  NoCookieNoEffectRun CloseAbsorbing EffectsOnlyAfterHandshake DeliverOnlyAuthorized OwnFaultOnly DeadIsClean
POSTCONDITION Accepted
CHECK_DEADLOCK FALSE
