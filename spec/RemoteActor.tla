----------------------------- MODULE RemoteActor -----------------------------
(* C20: remote actor references (proxies, ractor_cluster::remote_actor::RemoteActor) behave like
   the actors they stand for.

   Two nodes share one connection. A probe actor x lives on one side; for each direction d the
   session on the other side owns a proxy px[d][x] (created by a Spawn control frame, member of the
   process groups the original joins, stopped by a Terminate frame or when its session closes).
   Senders cast / call through a proxy:
     proxy mailbox (inb) -> proxy handler: fresh tag for a call, request frame into the session's
     ordered stream (fw) -> remote session hands it to the original (SessFwd, ProbeRecv) -> the original
     answers a call now or later, in any order (Reply) -> reply frame (rp) -> proxy mailbox ->
     proxy handler resolves the pending call with that tag.
   Each queue is FIFO (actor mailboxes, one ordered byte stream per session). Frames still in the
   stream are lost when the connection is cut; requests are dropped when the original is gone.

   History is folded into monitors: got (delivered once), last (per sender / proxy order), val.      *)
EXTENDS Naturals, FiniteSets, Sequences, TLC

CONSTANTS Senders, Probes, MaxReq, MaxAbandon,
          Late,      \* \subseteq Probes: spawned after the session is ready
          DirOf,     \* [Senders -> Dirs]: the proxy side a sender uses
          Kinds,     \* \subseteq {"cast", "call"}
          Faults,    \* \subseteq {"exit", "cut"}
          MaxPg,     \* bound on join / leave operations per probe
          TagMode,   \* "fresh" (the code) | "reuse": broken designs used to show the properties bite
          ResolveMode \* "bytag" (the code) | "fifo"
Dirs == {"ab", "ba"}
Ids == Senders \X (1..MaxReq)

VARIABLES sess,    \* "up" | "cut"
          pr,      \* [Probes -> [st: "none" | "alive" | "dead", grp: BOOLEAN]]
          px,      \* [Dirs -> [Probes -> [st: "none" | "live" | "stopped", ctr, pend, grp]]]
          inb,     \* [Dirs -> [Probes -> Seq(item)]]   proxy mailbox
          fw,      \* [Dirs -> [Probes -> Seq(frame)]]  request frames towards the original
          rp,      \* [Dirs -> [Probes -> set of frames]] reply frames towards the proxy (each call's answer is
                   \*   relayed by its own waiter task: no order among them)
          ctl,     \* [Dirs -> [Probes -> Seq(kind)]]   control frames towards the proxy's session
          pmb,     \* [Probes -> Seq(frame)]           the original's mailbox
          held,    \* [Probes -> set of [d, id, tag]]   calls received, not yet answered
          nq,      \* [Senders -> 0..MaxReq]
          rq,      \* [Ids -> [st, k, d, x, val]]       what a sender did and got
          npg,     \* [Probes -> Nat] join / leave operations so far
          got, last, fifoOk, onceOk                      \* monitors
vars == <<sess, pr, px, inb, fw, rp, ctl, pmb, held, nq, rq, npg, got, last, fifoOk, onceOk>>

NoRq == [st |-> "unsent", k |-> "cast", d |-> "ab", x |-> CHOOSE x \in Probes : TRUE, val |-> <<>>]
NoPx == [st |-> "none", ctr |-> 0, pend |-> {}, grp |-> FALSE]

Init ==
  /\ sess = "up"
  /\ pr = [x \in Probes |-> IF x \in Late THEN [st |-> "none", grp |-> FALSE] ELSE [st |-> "alive", grp |-> FALSE]]
  /\ px = [d \in Dirs |-> [x \in Probes |-> IF x \in Late THEN NoPx ELSE [NoPx EXCEPT !.st = "live"]]]
  /\ inb = [d \in Dirs |-> [x \in Probes |-> <<>>]]
  /\ fw = [d \in Dirs |-> [x \in Probes |-> <<>>]]
  /\ rp = [d \in Dirs |-> [x \in Probes |-> {}]]
  /\ ctl = [d \in Dirs |-> [x \in Probes |-> <<>>]]
  /\ pmb = [x \in Probes |-> <<>>]
  /\ held = [x \in Probes |-> {}]
  /\ nq = [s \in Senders |-> 0]
  /\ rq = [i \in Ids |-> NoRq]
  /\ npg = [x \in Probes |-> 0]
  /\ got = [i \in Ids |-> FALSE]
  /\ last = [x \in Probes |-> [d \in Dirs |-> [s \in Senders |-> 0]]]
  /\ fifoOk = TRUE /\ onceOk = TRUE

Abandoned == Cardinality({i \in Ids : rq[i].st = "timeout"})

\* ---- senders ---------------------------------------------------------------------------------
\* cast / call through proxy (d, x): accepted by the proxy's mailbox, or refused when it has stopped
Send(s, k, d, x) == LET i == <<s, nq[s] + 1>> IN
  /\ nq[s] < MaxReq /\ px[d][x].st # "none"
  /\ nq' = [nq EXCEPT ![s] = @ + 1]
  /\ IF px[d][x].st \in {"live", "closing"}
       THEN /\ inb' = [inb EXCEPT ![d][x] = Append(@, [k |-> k, id |-> i, tag |-> 0, v |-> <<>>])]
            /\ rq' = [rq EXCEPT ![i] = [st |-> "sent", k |-> k, d |-> d, x |-> x, val |-> <<>>]]
       ELSE /\ inb' = inb
            /\ rq' = [rq EXCEPT ![i] = [st |-> "refused", k |-> k, d |-> d, x |-> x, val |-> <<>>]]
  /\ UNCHANGED <<sess, pr, px, fw, rp, ctl, pmb, held, npg, got, last, fifoOk, onceOk>>
\* the caller stops waiting (timeout / dropped future): the request is abandoned
Abandon(i) ==
  /\ rq[i].st = "sent" /\ rq[i].k = "call" /\ Abandoned < MaxAbandon
  /\ rq' = [rq EXCEPT ![i].st = "timeout"]
  /\ UNCHANGED <<sess, pr, px, inb, fw, rp, ctl, pmb, held, nq, npg, got, last, fifoOk, onceOk>>

\* ---- proxy -----------------------------------------------------------------------------------
Fail(r, ids) == [i \in Ids |-> IF i \in ids /\ r[i].st = "sent" /\ r[i].k = "call" THEN [r[i] EXCEPT !.st = "senderr"] ELSE r[i]]
PxHandle(d, x) == LET h == Head(inb[d][x]) p == px[d][x] IN
  /\ p.st = "live" /\ inb[d][x] # <<>>
  /\ inb' = [inb EXCEPT ![d][x] = Tail(@)]
  /\ CASE h.k = "cast" ->
            /\ fw' = IF sess = "up" THEN [fw EXCEPT ![d][x] = Append(@, [k |-> "cast", id |-> h.id, tag |-> 0])] ELSE fw
            /\ UNCHANGED <<px, rq>>
       [] h.k = "call" ->
            \* a fresh tag for every call; the reply port is parked under it
            IF sess = "up"
              THEN LET t == IF TagMode = "fresh" THEN p.ctr + 1 ELSE 1
                       old == {e \in p.pend : e.tag = t}        \* an entry under the same tag is overwritten, its port dropped
                   IN /\ px' = [px EXCEPT ![d][x].ctr = p.ctr + 1, ![d][x].pend = (p.pend \ old) \cup {[tag |-> t, id |-> h.id]}]
                      /\ fw' = [fw EXCEPT ![d][x] = Append(@, [k |-> "call", id |-> h.id, tag |-> t])]
                      /\ rq' = Fail(rq, {e.id : e \in old})
              ELSE \* the connection is gone: the frame is lost; the port stays parked until the proxy goes
                   \* down with its session, or is dropped at once if the session actor has already exited
                   /\ fw' = fw
                   /\ \/ px' = [px EXCEPT ![d][x].ctr = p.ctr + 1, ![d][x].pend = p.pend \cup {[tag |-> p.ctr + 1, id |-> h.id]}] /\ rq' = rq
                      \/ px' = [px EXCEPT ![d][x].ctr = p.ctr + 1] /\ rq' = Fail(rq, {h.id})
       [] h.k = "reply" ->
            \* a reply resolves exactly the call parked under its tag (if the caller still waits)
            LET m == IF ResolveMode = "bytag" THEN {e \in p.pend : e.tag = h.tag}
                     ELSE {e \in p.pend : \A f \in p.pend : e.tag <= f.tag} IN
            /\ px' = [px EXCEPT ![d][x].pend = p.pend \ m]
            /\ rq' = [i \in Ids |-> IF (\E e \in m : e.id = i) /\ rq[i].st = "sent" THEN [rq[i] EXCEPT !.st = "ok", !.val = h.v] ELSE rq[i]]
            /\ fw' = fw
  /\ UNCHANGED <<sess, pr, rp, ctl, pmb, held, nq, npg, got, last, fifoOk, onceOk>>

\* ---- the far side ----------------------------------------------------------------------------
\* the remote session hands the next request frame to the original's mailbox (or drops it: the pid is
\* not advertised / no longer alive)
SessFwd(d, x) == LET h == Head(fw[d][x]) IN
  /\ fw[d][x] # <<>>
  /\ fw' = [fw EXCEPT ![d][x] = Tail(@)]
  /\ pmb' = IF pr[x].st = "alive" THEN [pmb EXCEPT ![x] = Append(@, [d |-> d, k |-> h.k, id |-> h.id, tag |-> h.tag])] ELSE pmb
  /\ UNCHANGED <<sess, pr, px, inb, rp, ctl, held, nq, npg, rq, got, last, fifoOk, onceOk>>
\* the original handles the next message of its mailbox
ProbeRecv(x) == LET h == Head(pmb[x]) s == h.id[1] q == h.id[2] IN
  /\ pmb[x] # <<>> /\ pr[x].st = "alive"
  /\ pmb' = [pmb EXCEPT ![x] = Tail(@)]
  /\ onceOk' = (onceOk /\ ~got[h.id])
  /\ got' = [got EXCEPT ![h.id] = TRUE]
  /\ fifoOk' = (fifoOk /\ last[x][h.d][s] < q)
  /\ last' = [last EXCEPT ![x][h.d][s] = q]
  /\ held' = IF h.k = "call" THEN [held EXCEPT ![x] = @ \cup {[d |-> h.d, id |-> h.id, tag |-> h.tag]}] ELSE held
  /\ UNCHANGED <<sess, pr, px, inb, fw, rp, ctl, nq, npg, rq>>
\* the original answers one of the calls it holds (any order); the value names the request
\* (the far session waits for the answer no longer than the caller does: the answer to an abandoned
\* call may be discarded there)
Reply(x, e) ==
  /\ pr[x].st = "alive" /\ e \in held[x]
  /\ held' = [held EXCEPT ![x] = @ \ {e}]
  /\ \/ rp' = IF sess = "up" THEN [rp EXCEPT ![e.d][x] = @ \cup {[tag |-> e.tag, v |-> e.id]}] ELSE rp
     \/ rq[e.id].st = "timeout" /\ rp' = rp
  /\ UNCHANGED <<sess, pr, px, inb, fw, ctl, pmb, nq, npg, rq, got, last, fifoOk, onceOk>>
\* a reply frame reaches the proxy's session, which passes it to the proxy if it still has one
ReplyArrive(d, x, h) ==
  /\ h \in rp[d][x]
  /\ rp' = [rp EXCEPT ![d][x] = @ \ {h}]
  /\ inb' = IF px[d][x].st \in {"live", "closing"} THEN [inb EXCEPT ![d][x] = Append(@, [k |-> "reply", id |-> <<>>, tag |-> h.tag, v |-> h.v])] ELSE inb
  /\ UNCHANGED <<sess, pr, px, fw, ctl, pmb, held, nq, npg, rq, got, last, fifoOk, onceOk>>

\* ---- lifecycle -------------------------------------------------------------------------------
Ctl(c, x, k) == IF sess = "up" THEN [d \in Dirs |-> [y \in Probes |-> IF y = x THEN Append(c[d][y], k) ELSE c[d][y]]] ELSE c
ProbeSpawn(x) ==
  /\ pr[x].st = "none" /\ pr' = [pr EXCEPT ![x].st = "alive"] /\ ctl' = Ctl(ctl, x, "spawn")
  /\ UNCHANGED <<sess, px, inb, fw, rp, pmb, held, nq, npg, rq, got, last, fifoOk, onceOk>>
ProbeJoin(x) ==
  /\ npg[x] < MaxPg /\ npg' = [npg EXCEPT ![x] = @ + 1]
  /\ pr[x].st = "alive" /\ ~pr[x].grp /\ pr' = [pr EXCEPT ![x].grp = TRUE] /\ ctl' = Ctl(ctl, x, "join")
  /\ UNCHANGED <<sess, px, inb, fw, rp, pmb, held, nq, rq, got, last, fifoOk, onceOk>>
ProbeLeave(x) ==
  /\ npg[x] < MaxPg /\ npg' = [npg EXCEPT ![x] = @ + 1]
  /\ pr[x].st = "alive" /\ pr[x].grp /\ pr' = [pr EXCEPT ![x].grp = FALSE] /\ ctl' = Ctl(ctl, x, "leave")
  /\ UNCHANGED <<sess, px, inb, fw, rp, pmb, held, nq, rq, got, last, fifoOk, onceOk>>
\* the original exits: it leaves its groups, the calls it holds are never answered
ProbeExit(x) ==
  /\ "exit" \in Faults
  /\ pr[x].st = "alive" /\ pr' = [pr EXCEPT ![x] = [st |-> "dead", grp |-> FALSE]]
  /\ ctl' = (IF pr[x].grp THEN Ctl(Ctl(ctl, x, "term"), x, "leave") ELSE Ctl(ctl, x, "term"))
  /\ held' = [held EXCEPT ![x] = {}] /\ pmb' = [pmb EXCEPT ![x] = <<>>]
  /\ UNCHANGED <<sess, px, inb, fw, rp, nq, npg, rq, got, last, fifoOk, onceOk>>
\* a stop request reaches a proxy: it handles nothing any more, but its mailbox still takes messages
\* until the actor has exited (PxClosed): then parked and queued calls fail and it is in no group
PxClosed(d, x) == LET p == px[d][x] IN
  /\ p.st = "closing"
  /\ px' = [px EXCEPT ![d][x] = [st |-> "stopped", ctr |-> p.ctr, pend |-> {}, grp |-> FALSE]]
  /\ rq' = Fail(rq, {e.id : e \in p.pend} \cup {inb[d][x][j].id : j \in {j \in DOMAIN inb[d][x] : inb[d][x][j].k = "call"}})
  /\ inb' = [inb EXCEPT ![d][x] = <<>>]
  /\ UNCHANGED <<sess, pr, fw, rp, ctl, pmb, held, nq, npg, got, last, fifoOk, onceOk>>
CtlArrive(d, x) == LET k == Head(ctl[d][x]) p == px[d][x] IN
  /\ ctl[d][x] # <<>>          \* (frames that passed the cut point still arrive)
  /\ ctl' = [ctl EXCEPT ![d][x] = Tail(@)]
  /\ CASE k = "spawn" -> px' = [px EXCEPT ![d][x] = IF p.st = "none" THEN [NoPx EXCEPT !.st = "live"] ELSE p] /\ UNCHANGED <<rq, inb>>
       [] k = "join" -> px' = [px EXCEPT ![d][x] = IF p.st = "live" THEN [p EXCEPT !.grp = TRUE] ELSE p] /\ UNCHANGED <<rq, inb>>
       [] k = "leave" -> px' = [px EXCEPT ![d][x] = IF p.st = "live" THEN [p EXCEPT !.grp = FALSE] ELSE p] /\ UNCHANGED <<rq, inb>>
       [] k = "term" -> px' = [px EXCEPT ![d][x] = IF p.st = "live" THEN [p EXCEPT !.st = "closing"] ELSE p] /\ UNCHANGED <<rq, inb>>
  /\ UNCHANGED <<sess, pr, fw, rp, pmb, held, nq, npg, got, last, fifoOk, onceOk>>
\* the connection is cut: frames in the stream are lost; both sessions close and take their proxies down
Cut ==
  /\ "cut" \in Faults
  /\ sess = "up" /\ sess' = "cut"
  /\ UNCHANGED <<pr, px, inb, fw, rp, ctl, pmb, held, nq, npg, rq, got, last, fifoOk, onceOk>>
Lose(d, x) ==
  /\ sess = "cut" /\ (fw[d][x] # <<>> \/ rp[d][x] # {} \/ ctl[d][x] # <<>>)
  /\ fw' = [fw EXCEPT ![d][x] = <<>>] /\ rp' = [rp EXCEPT ![d][x] = {}] /\ ctl' = [ctl EXCEPT ![d][x] = <<>>]
  /\ UNCHANGED <<sess, pr, px, inb, pmb, held, nq, npg, rq, got, last, fifoOk, onceOk>>
SessionDown(d, x) ==
  /\ sess = "cut" /\ px[d][x].st = "live"
  /\ px' = [px EXCEPT ![d][x].st = "closing"]
  /\ UNCHANGED <<sess, pr, inb, fw, rp, ctl, pmb, held, nq, npg, rq, got, last, fifoOk, onceOk>>

Quiet ==
  /\ \A d \in Dirs, x \in Probes : inb[d][x] = <<>> /\ fw[d][x] = <<>> /\ rp[d][x] = {} /\ ctl[d][x] = <<>> /\ px[d][x].st # "closing"
  /\ \A x \in Probes : pr[x].st = "alive" => pmb[x] = <<>>
  /\ sess = "cut" => \A d \in Dirs, x \in Probes : px[d][x].st # "live"
Term == Quiet /\ UNCHANGED vars

Next ==
  \/ \E s \in Senders, k \in Kinds, x \in Probes : Send(s, k, DirOf[s], x)
  \/ \E i \in Ids : Abandon(i)
  \/ \E d \in Dirs, x \in Probes : PxHandle(d, x) \/ SessFwd(d, x) \/ (\E h \in rp[d][x] : ReplyArrive(d, x, h)) \/ CtlArrive(d, x) \/ Lose(d, x) \/ SessionDown(d, x) \/ PxClosed(d, x)
  \/ \E x \in Probes : ProbeRecv(x) \/ (\E e \in held[x] : Reply(x, e)) \/ ProbeSpawn(x) \/ ProbeJoin(x) \/ ProbeLeave(x) \/ ProbeExit(x)
  \/ Cut \/ Term
Spec == Init /\ [][Next]_vars

\* ---- properties ------------------------------------------------------------------------------
\* requests arrive at most once, in sending order per (sender, proxy)
Ordered == fifoOk /\ onceOk
\* a reply resolves exactly the caller that allocated its tag: the value a caller gets names its own request
NoCrossWire == \A i \in Ids : rq[i].st = "ok" => rq[i].val = i
TagsUnique == \A d \in Dirs, x \in Probes : \A e1, e2 \in px[d][x].pend : e1.tag = e2.tag => e1 = e2
\* only requests that were delivered get answered
AnsweredWasDelivered == \A i \in Ids : rq[i].st = "ok" => got[i]
\* a stopped proxy holds nothing and is in no group; a proxy only exists for an advertised actor
StoppedIsClean == \A d \in Dirs, x \in Probes : px[d][x].st = "stopped" => px[d][x].pend = {} /\ ~px[d][x].grp /\ inb[d][x] = <<>>
ProxyHasOriginal == \A d \in Dirs, x \in Probes : px[d][x].st # "none" => pr[x].st # "none"
\* once everything is delivered the proxies mirror the originals
Mirrors ==
  Quiet => \A d \in Dirs, x \in Probes :
     /\ (sess = "up" /\ pr[x].st = "alive") => px[d][x].st = "live" /\ px[d][x].grp = pr[x].grp
     /\ (sess = "cut" \/ pr[x].st = "dead") => px[d][x].st \notin {"live", "closing"}
     /\ px[d][x].st = "live" => \A i \in Ids : (rq[i].st = "sent" /\ rq[i].d = d /\ rq[i].x = x) =>
            (rq[i].k = "cast" \/ (\E e \in held[x] : e.id = i))
=============================================================================
