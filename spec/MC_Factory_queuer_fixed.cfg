SPECIFICATION MCSpec
CONSTANTS
  MaxW = 3
  Keys = {1, 2}
  MaxJ = 3
  MaxInc = 5
  LbBig = 1000
  FixRetire = TRUE
  Routing0 = "queuer"
  Workers0 = 2
  Lim0 <- NoLim
  Mode0 = "none"
  RlOn = FALSE
  RlRefill = 0
  RlInterval = 0
  RlMax = 0
  JobKeys <- Keys121
  JobTtl <- NoTtl3
  PortJobs = {}
  Ends = {"ok", "panic"}
  MaxKills = 1
  MaxFaults = 1
  Resizes <- Res1
  MayDrain = FALSE
  MaxT = 0
  TStep = 1
  RetryJobs = {}
  Retries = 0
  FreeOrder = FALSE
INVARIANTS
  OneFate PortOk LostOnePerDeath NoFactoryPanic KeyExclusive KeyFifo OneAtATime HashInPool RoundRobinCovers QueuerNoIdle ViewExact
  NeverDrainingSlotReplaced QueueBound HookOrder PoolConverges DrainComplete DrainRefuses
CHECK_DEADLOCK FALSE
