SPECIFICATION Spec
CONSTANTS
  Conns = {k1, k2, k3}
  MaxNonce = 2
  Mode = "table"
  Ord <- Ord3
INVARIANTS
  I_UnauthPowerless I_CommitStabilises
CHECK_DEADLOCK FALSE
