-------------------------- MODULE Trace_RemoteActor --------------------------
(* Trace validation for C20: runs of two real node servers with probe actors, callers and a
   controller (harness family remoteactor) against RemoteActor.
   Observations: what callers sent and got back, what the probes received and answered, joins,
   leaves, spawns, exits, the cut, and the proxies' final status / group membership / refusal of
   sends. Internal points (STRICT=1 consumes and compares them, STRICT=0 skips them and lets the
   specification take those steps silently): proxy.fwd (tag allocation), proxy.resolve,
   sess.fwd / sess.reply / sess.ctl (what a session does with an incoming frame).
   The steps that have no event at all (frames lost after a cut, proxies going down with their
   session, a stopped proxy closing its mailbox) are silent in both modes.                        *)
EXTENDS RemoteActor, Json, IOUtils, TLCExt

Rec == ndJsonDeserialize(IOEnv.TRACE)
Strict == IOEnv.STRICT = "1"
N == Len(Rec)
TrDirOf == [s \in Senders |-> "ab"]

VARIABLES l,
          stopreq   \* free-running family: probes whose stop was requested (their exit itself is not logged)
tvars == <<vars, l, stopreq>>
KeepReq == UNCHANGED stopreq
Ev == Rec[l]
Adv == l' = l + 1
Stay == l' = l
Live == l <= N
IsA(a) == Live /\ Ev.a = a
Range(s) == {s[i] : i \in DOMAIN s}
Internal == {"proxy.fwd", "proxy.resolve", "sess.fwd", "sess.reply", "sess.ctl"}
I == <<Ev.s, Ev.q>>

\* ---- observations -------------------------------------------------------------------------------
SendCast ==
  /\ IsA("obs.send") /\ Adv
  /\ nq[Ev.s] + 1 = Ev.q
  /\ Send(Ev.s, "cast", Ev.dir, Ev.x)
  /\ (Ev.d = 1) = (rq'[I].st = "sent")
\* a message of a type that cannot be serialized is refused by a remote reference, and nothing changes
Wrong == IsA("obs.wrong") /\ Adv /\ Ev.d = 0 /\ UNCHANGED vars
CallBegin ==
  /\ IsA("obs.call_begin") /\ Adv
  /\ nq[Ev.s] + 1 = Ev.q
  /\ Send(Ev.s, "call", Ev.dir, Ev.x)
Ret ==
  /\ IsA("obs.ret") /\ Adv
  /\ CASE Ev.r = "ok" -> rq[I].st = "ok" /\ rq[I].val = <<Ev.vs, Ev.vq>> /\ rq[I].val = I /\ UNCHANGED vars
       [] Ev.r = "timeout" -> Abandon(I)
       \* at its deadline a call without an answer ends as Timeout or as SenderError (Ev.hit = 1: the
       \* deadline had passed), depending on which timer fires first
       [] Ev.r = "senderr" -> IF rq[I].st = "sent" /\ Ev.hit = 1 THEN Abandon(I) ELSE rq[I].st = "senderr" /\ UNCHANGED vars
       [] Ev.r = "refused" -> rq[I].st = "refused" /\ UNCHANGED vars
Recv ==
  /\ IsA("obs.recv") /\ Adv
  /\ pmb[Ev.x] # <<>> /\ Head(pmb[Ev.x]).k = Ev.k /\ Head(pmb[Ev.x]).id = I
  /\ ProbeRecv(Ev.x)
  /\ fifoOk' /\ onceOk'
ReplyObs ==
  /\ IsA("obs.reply") /\ Adv
  /\ \E e \in held[Ev.x] : e.id = I /\ Reply(Ev.x, e)
Life ==
  \/ IsA("obs.join") /\ Adv /\ ProbeJoin(Ev.x)
  \/ IsA("obs.leave") /\ Adv /\ ProbeLeave(Ev.x)
  \/ IsA("obs.spawn") /\ Adv /\ ProbeSpawn(Ev.x)
  \/ IsA("obs.exit") /\ Adv /\ ProbeExit(Ev.x)
  \/ IsA("obs.cut") /\ Adv /\ Cut

\* ---- internal points ----------------------------------------------------------------------------
PFwd ==
  /\ Strict /\ IsA("proxy.fwd") /\ Adv
  /\ inb[Ev.dir][Ev.x] # <<>> /\ Head(inb[Ev.dir][Ev.x]).k = Ev.k
  /\ (Ev.k = "call") => (px[Ev.dir][Ev.x].ctr + 1 = Ev.tag)
  /\ PxHandle(Ev.dir, Ev.x)
PResolve == LET h == Head(inb[Ev.dir][Ev.x]) p == px[Ev.dir][Ev.x] IN
  /\ Strict /\ IsA("proxy.resolve") /\ Adv
  /\ inb[Ev.dir][Ev.x] # <<>> /\ h.k = "reply" /\ h.tag = Ev.tag
  \* a parked port of a caller that still waits is found; the port of a caller that gave up may
  \* already have been swept
  /\ (Ev.hit = 1) => (\E e \in p.pend : e.tag = Ev.tag)
  /\ (\E e \in p.pend : e.tag = Ev.tag /\ rq[e.id].st = "sent") => (Ev.hit = 1)
  /\ PxHandle(Ev.dir, Ev.x)
SFwd == LET h == Head(fw[Ev.dir][Ev.x]) IN
  /\ Strict /\ IsA("sess.fwd") /\ Adv
  /\ fw[Ev.dir][Ev.x] # <<>> /\ h.k = Ev.k /\ h.tag = Ev.tag
  /\ (Ev.ok = 1) = (pr[Ev.x].st = "alive")
  /\ SessFwd(Ev.dir, Ev.x)
SReply ==
  /\ Strict /\ IsA("sess.reply") /\ Adv
  /\ \E h \in rp[Ev.dir][Ev.x] : h.tag = Ev.tag /\ ReplyArrive(Ev.dir, Ev.x, h)
SCtl ==
  /\ Strict /\ IsA("sess.ctl") /\ Adv
  /\ ctl[Ev.dir][Ev.x] # <<>> /\ Head(ctl[Ev.dir][Ev.x]) = Ev.k
  /\ CtlArrive(Ev.dir, Ev.x)
\* lenient mode: internal lines are skipped, the steps are taken silently
SkipInternal == ~Strict /\ Live /\ Ev.a \in Internal /\ Adv /\ UNCHANGED vars
SilentInternal == ~Strict /\ Live /\ Stay /\ \E d \in Dirs, x \in Probes : PxHandle(d, x) \/ SessFwd(d, x) \/ (\E h \in rp[d][x] : ReplyArrive(d, x, h)) \/ CtlArrive(d, x)
\* steps without any event
Unseen == Live /\ Stay /\ \E d \in Dirs, x \in Probes : Lose(d, x) \/ SessionDown(d, x) \/ PxClosed(d, x)

\* ---- end of run -----------------------------------------------------------------------------------
PxOk(o) == LET p == px[o.dir][o.x] IN
  /\ CASE o.st = "live" -> p.st = "live"
       [] o.st = "stopped" -> p.st = "stopped" /\ o.refuses = 1 /\ o.grp = 0
       [] o.st = "none" -> p.st \in {"none", "stopped"}     \* the harness never got hold of it
       [] OTHER -> FALSE
  /\ (o.grp = 1) = p.grp
PrOk(o) == pr[o.x].st = o.st /\ (o.grp = 1) = pr[o.x].grp
End ==
  /\ IsA("obs.end") /\ Adv /\ UNCHANGED vars
  /\ Ev.ok = 1
  /\ (Ev.up = 1) = (sess = "up")
  /\ \A o \in Range(Ev.px) : PxOk(o)
  /\ \A o \in Range(Ev.pr) : PrOk(o)
  /\ Quiet /\ Mirrors

Reset ==
  /\ IsA("reset") /\ Adv
  /\ sess' = "up"
  \* (a probe may already be in the group when the scenario proper starts: its proxies then are too)
  /\ LET alive(x) == \E o \in Range(Ev.meta.init) : o.x = x /\ o.st = "alive"
         ingrp(x) == \E o \in Range(Ev.meta.init) : o.x = x /\ o.st = "alive" /\ o.grp = 1
     IN /\ pr' = [x \in Probes |-> [st |-> IF alive(x) THEN "alive" ELSE "none", grp |-> ingrp(x)]]
        /\ px' = [d \in Dirs |-> [x \in Probes |-> IF alive(x) THEN [NoPx EXCEPT !.st = "live", !.grp = ingrp(x)] ELSE NoPx]]
  /\ inb' = [d \in Dirs |-> [x \in Probes |-> <<>>]]
  /\ fw' = [d \in Dirs |-> [x \in Probes |-> <<>>]]
  /\ rp' = [d \in Dirs |-> [x \in Probes |-> {}]]
  /\ ctl' = [d \in Dirs |-> [x \in Probes |-> <<>>]]
  /\ pmb' = [x \in Probes |-> <<>>]
  /\ held' = [x \in Probes |-> {}]
  /\ nq' = [s \in Senders |-> 0]
  /\ rq' = [i \in Ids |-> NoRq]
  /\ npg' = [x \in Probes |-> 0]
  /\ got' = [i \in Ids |-> FALSE]
  /\ last' = [x \in Probes |-> [d \in Dirs |-> [s \in Senders |-> 0]]]
  /\ fifoOk' = TRUE /\ onceOk' = TRUE

\* free-running family (real threads): the controller logs the stop request before it calls stop(); the probe exits
\* at some later instant that no log line marks
StopReq == IsA("obs.stopreq") /\ Adv /\ Ev.x \in Probes /\ stopreq' = stopreq \cup {Ev.x} /\ UNCHANGED vars
SilentExit == ~Strict /\ Live /\ Stay /\ KeepReq /\ \E x \in stopreq : pr[x].st = "alive" /\ ProbeExit(x)

TNext == \/ (Reset /\ stopreq' = {})
         \/ StopReq \/ SilentExit
         \/ ((SendCast \/ Wrong \/ CallBegin \/ Ret \/ Recv \/ ReplyObs \/ Life \/ PFwd \/ PResolve \/ SFwd \/ SReply \/ SCtl
              \/ SkipInternal \/ SilentInternal \/ Unseen \/ End) /\ KeepReq)

TInit == Init /\ l = 1 /\ stopreq = {} /\ TLCSet(42, 1)
TSpec == TInit /\ [][TNext]_tvars

Progress == /\ TLCSet(42, IF l > TLCGet(42) THEN l ELSE TLCGet(42))
            \* EARLY=1 (lenient validation): one behaviour that explains the whole trace is enough, stop there
            /\ (IF l > N /\ IOEnv.EARLY = "1" THEN PrintT("ACCEPTED_EARLY") /\ TLCSet("exit", TRUE) ELSE TRUE)
Accepted == IF TLCGet(42) > N THEN TRUE
            ELSE /\ PrintT(<<"REJECTED_AT", TLCGet(42), Rec[TLCGet(42)]>>)
                 /\ FALSE
=============================================================================
