SPECIFICATION Spec
CONSTANTS
  Timers = {"a", "b"}
  Kinds <- KindsA
  Periods <- PeriodsA
  MaxNow = 4
  EnvOps = {"stop", "abort"}
  Stalls = {}
  VirtualClock = FALSE
  Instant = FALSE
  UnstartedKillsInterval = TRUE
INVARIANTS
  TypeOk AfterOnce AfterResult NeverEarly Exact AbortStops NoDeliveryToDead HandledInOrder IntervalEnds Reasons IntervalSurvivesStart
CHECK_DEADLOCK FALSE
