SPECIFICATION Spec
CONSTANTS
  Timers = {"a", "b"}
  Kinds <- KindsA
  Periods <- PeriodsA
  MaxNow = 4
  EnvOps = {"stop", "abort"}
  VirtualClock = FALSE
INVARIANTS
  TypeOk AfterOnce AfterResult NeverEarly Exact AbortStops NoDeliveryToDead HandledInOrder IntervalEnds Reasons
CHECK_DEADLOCK FALSE
