SPECIFICATION Spec
CONSTANTS
  Senders = {s1, s2}
  Probes = {x1}
  Late = {}
  MaxReq = 2
  MaxAbandon = 1
  DirOf <- SameSide
  Kinds = {"call"}
  Faults = {}
  TagMode = "fresh"
  ResolveMode = "bytag"
  MaxPg = 0
INVARIANTS
  Ordered NoCrossWire TagsUnique AnsweredWasDelivered StoppedIsClean ProxyHasOriginal Mirrors
CHECK_DEADLOCK TRUE
