------------------------------ MODULE Rpc ------------------------------
(* ractor/src/rpc.rs (call, call_t, multi_call, call_and_forward), ractor/src/port.rs
   (RpcReplyPort) and the receiver flush in ActorPortSet::drop, at the grain of one task poll.
   Every call creates one reply port (a oneshot): the sending half travels inside the request
   message (callee queue -> handler -> callee state / a helper task), the receiving half stays with
   the caller (or with multi_call's per-request sub-task / call_and_forward's waiting task).
   Actors are the Lifecycle abstraction of an actor with a mailbox (send accepted iff status below
   Draining; the queue is flushed when the receiver is dropped on exit).
   The clock is virtual (see Timer.tla): with VirtualClock = TRUE time moves only when no caller
   could complete, which makes "an answer no later than T" exact.
   Decides C09.                                                                                   *)
EXTENDS Naturals, Sequences, FiniteSets, TLC

CONSTANTS Actors,        \* callee actors and the forward collector (strings)
          Collector,     \* the actor that receives forwards ("none" if there is none)
          Ports,         \* set of call / port ids (naturals > 0)
          Plan,          \* [Ports -> [a: actor, kind: "call"|"multi"|"fwd", g: group id, gn: group size, hasT: BOOLEAN, T: Nat]]  (model checking)
          Policies,      \* what handlers may do: subset of {"reply","drop","stash","helper","sleep","both","fail"}
          EnvOps,        \* subset of {"stop","kill","drain"}
          MaxNow,
          VirtualClock

VARIABLES now, ac, pt
vars == <<now, ac, pt>>

NoItem == [k |-> "none", p |-> 0, v |-> 0]
Req(p) == [k |-> "req", p |-> p, v |-> 0]
Fwd(p, v) == [k |-> "fwd", p |-> p, v |-> v]
DrainItem == [k |-> "drain", p |-> 0, v |-> 0]
Val(a, p) == p      \* the value an honest callee sends on port p (the harness encodes callee and request id)

InitActor == [st |-> "run",            \* run | drain | stopping | dead
              stp |-> "none", sig |-> "none", mq |-> <<>>, cur |-> NoItem, busy |-> FALSE, slept |-> FALSE, exitK |-> "none"]
InitPort == [st |-> "none",            \* none | open | replied | dropped | void (reply sent to a receiver that is gone)
             v |-> 0, loc |-> "none",  \* none | mq | cur | state | helper | ret (returned to the caller by a refused send)
             at |-> "none",            \* the callee
             rx |-> FALSE,             \* the receiving half is still listened to
             pc |-> "idle",            \* idle | wait | done
             kind |-> "call", g |-> 0, gn |-> 1, hasT |-> FALSE, dl |-> 0, startAt |-> 0,
             sub |-> "none",           \* what the awaiting future saw: none | ok | senderr | timeout | sendfail | abandoned
             rv |-> 0,                 \* the value it received
             fw |-> "none",            \* call_and_forward: none | sent | lost (collector refused) ; fwn = number of forwards
             fwn |-> 0, fwr |-> 0,
             \* monitors
             late |-> FALSE, cross |-> FALSE, early |-> FALSE]

Init == now = 0 /\ ac = [a \in Actors |-> InitActor] /\ pt = [p \in Ports |-> InitPort]

Accepts(a) == ac[a].st = "run"
SetA(a, r) == ac' = [ac EXCEPT ![a] = r]
SetP(p, r) == pt' = [pt EXCEPT ![p] = r]
Remove(s, it) == SelectSeq(s, LAMBDA x : x # it)
Group(p) == {q \in Ports : pt[q].st # "none" /\ pt[q].kind = pt[p].kind /\ pt[q].g = pt[p].g}

-----------------------------------------------------------------------------
(* Actors (callees, collector) *)
Stop(a) == SetA(a, IF ac[a].stp = "none" /\ ac[a].st # "dead" THEN [ac[a] EXCEPT !.stp = "sent"] ELSE ac[a])
Kill(a) == SetA(a, IF ac[a].sig = "none" /\ ac[a].st # "dead" THEN [ac[a] EXCEPT !.sig = "sent"] ELSE ac[a])
Drain(a) == SetA(a, IF ac[a].st = "run" THEN [ac[a] EXCEPT !.st = "drain", !.mq = Append(@, DrainItem)] ELSE ac[a])
EnvStop(a) == "stop" \in EnvOps /\ ac[a].stp = "none" /\ Stop(a) /\ UNCHANGED <<now, pt>>
EnvKill(a) == "kill" \in EnvOps /\ ac[a].sig = "none" /\ Kill(a) /\ UNCHANGED <<now, pt>>
EnvDrain(a) == "drain" \in EnvOps /\ ac[a].st = "run" /\ Drain(a) /\ UNCHANGED <<now, pt>>

Idle(a) == ac[a].st \in {"run", "drain"} /\ ac[a].sig # "sent" /\ ac[a].cur = NoItem
InHandler(a) == ac[a].cur # NoItem /\ ac[a].sig # "sent" /\ ~ac[a].busy /\ ac[a].st \in {"run", "drain"}
\* the kill signal wins at the next poll: the handler future (and the port it holds) has been dropped
TgSig(a) ==
  /\ ac[a].sig = "sent" /\ ac[a].st # "dead"
  /\ \A p \in Ports : ~(pt[p].st = "open" /\ pt[p].loc = "cur" /\ pt[p].at = a)
  /\ SetA(a, [ac[a] EXCEPT !.sig = "taken", !.st = "stopping", !.exitK = "kill", !.cur = NoItem, !.busy = FALSE])
  /\ UNCHANGED <<now, pt>>
TgStop(a) ==
  /\ Idle(a) /\ ac[a].stp = "sent"
  /\ SetA(a, [ac[a] EXCEPT !.stp = "taken", !.st = "stopping", !.exitK = "stop"])
  /\ UNCHANGED <<now, pt>>
TgTake(a) ==
  /\ Idle(a) /\ ac[a].stp # "sent" /\ ac[a].mq # <<>> /\ Head(ac[a].mq) # DrainItem
  /\ LET h == Head(ac[a].mq) IN
     /\ SetA(a, [ac[a] EXCEPT !.mq = Tail(@), !.cur = h, !.slept = FALSE])
     /\ IF h.k = "req" THEN SetP(h.p, [pt[h.p] EXCEPT !.loc = "cur"]) ELSE UNCHANGED pt
  /\ UNCHANGED now
TgTakeDrain(a) ==
  /\ Idle(a) /\ ac[a].stp # "sent" /\ ac[a].mq # <<>> /\ Head(ac[a].mq) = DrainItem
  /\ SetA(a, [ac[a] EXCEPT !.mq = Tail(@), !.st = "stopping", !.exitK = "drain"])
  /\ UNCHANGED <<now, pt>>
\* the receiver has been dropped (queue flushed: every queued reply port is gone) and the guard ran
TgCleanup(a) ==
  /\ ac[a].st = "stopping" /\ ac[a].sig # "sent"
  /\ \A p \in Ports : ~(pt[p].st = "open" /\ pt[p].loc \in {"mq", "cur"} /\ pt[p].at = a)
  /\ SetA(a, [ac[a] EXCEPT !.st = "dead", !.mq = <<>>])
  /\ UNCHANGED <<now, pt>>

\* handler bodies
CurPort(a) == ac[a].cur.p
HSleep(a) == /\ InHandler(a) /\ ~ac[a].slept /\ SetA(a, [ac[a] EXCEPT !.busy = TRUE, !.slept = TRUE]) /\ UNCHANGED <<now, pt>>
HWake(a) == /\ ac[a].busy /\ ac[a].sig # "sent" /\ SetA(a, [ac[a] EXCEPT !.busy = FALSE]) /\ UNCHANGED <<now, pt>>
\* RpcReplyPort::send consumes the port: one reply per port by construction
DoReply(p, v) == SetP(p, [pt[p] EXCEPT !.st = IF pt[p].rx THEN "replied" ELSE "void", !.v = v, !.loc = "none"])
HReply(a, p, v) ==    \* own port, or (policy "both") a port stashed earlier
  /\ InHandler(a) /\ ac[a].cur.k = "req" /\ pt[p].st = "open" /\ pt[p].at = a
  /\ pt[p].loc = "cur" \/ pt[p].loc = "state"
  /\ DoReply(p, v) /\ UNCHANGED <<now, ac>>
HStash(a, p) ==
  /\ InHandler(a) /\ pt[p].st = "open" /\ pt[p].at = a /\ pt[p].loc = "cur"
  /\ SetP(p, [pt[p] EXCEPT !.loc = "state"]) /\ UNCHANGED <<now, ac>>
HToHelper(a, p) ==
  /\ InHandler(a) /\ pt[p].st = "open" /\ pt[p].at = a /\ pt[p].loc = "cur"
  /\ SetP(p, [pt[p] EXCEPT !.loc = "helper"]) /\ UNCHANGED <<now, ac>>
XReply(p, v) ==       \* the helper task answers
  /\ pt[p].st = "open" /\ pt[p].loc = "helper"
  /\ DoReply(p, v) /\ UNCHANGED <<now, ac>>
\* the sending half is dropped without a reply
DropPort(p) ==
  /\ pt[p].st = "open"
  /\ LET a == pt[p].at IN
     CASE pt[p].loc \in {"ret", "helper"} -> UNCHANGED ac
       [] pt[p].loc = "cur" -> UNCHANGED ac                     \* handler drops it, or the handler future is dropped by a kill
       [] pt[p].loc = "state" -> ac[a].st \in {"stopping", "dead"} /\ UNCHANGED ac
       [] pt[p].loc = "mq" -> ac[a].st = "stopping" /\ SetA(a, [ac[a] EXCEPT !.mq = Remove(@, Req(p))])   \* flush
       [] OTHER -> FALSE
  /\ SetP(p, [pt[p] EXCEPT !.st = "dropped", !.loc = "none"]) /\ UNCHANGED now
HandleEnd(a, o) ==
  /\ InHandler(a)
  /\ \A p \in Ports : ~(pt[p].st = "open" /\ pt[p].loc = "cur" /\ pt[p].at = a)     \* a port still held is dropped with the message
  /\ SetA(a, IF o = "ok" THEN [ac[a] EXCEPT !.cur = NoItem] ELSE [ac[a] EXCEPT !.cur = NoItem, !.st = "stopping", !.exitK = "err"])
  /\ UNCHANGED <<now, pt>>
\* the collector logs a forward
HFwd(a) ==
  /\ InHandler(a) /\ ac[a].cur.k = "fwd"
  /\ LET p == ac[a].cur.p IN SetP(p, [pt[p] EXCEPT !.fwr = @ + 1, !.cross = @ \/ ac[a].cur.v # pt[p].v])
  /\ SetA(a, [ac[a] EXCEPT !.cur = NoItem]) /\ UNCHANGED now

-----------------------------------------------------------------------------
(* Callers *)
\* call / call_t / one request of multi_call / call_and_forward: port created, request sent (or refused)
Call(p, a, kind, g, gn, hasT, T) ==
  /\ pt[p].st = "none"
  /\ LET r == [InitPort EXCEPT !.st = "open", !.at = a, !.kind = kind, !.g = g, !.gn = gn, !.hasT = hasT, !.dl = now + T, !.startAt = now, !.pc = "wait"]
     IN IF Accepts(a)
          THEN SetP(p, [r EXCEPT !.loc = "mq", !.rx = TRUE]) /\ SetA(a, [ac[a] EXCEPT !.mq = Append(@, Req(p))])
          ELSE SetP(p, [r EXCEPT !.loc = "ret", !.sub = "sendfail"]) /\ UNCHANGED ac
  /\ UNCHANGED now

Completable(p) == pt[p].st \in {"replied", "dropped"} \/ (pt[p].hasT /\ now >= pt[p].dl)
\* tokio::time::timeout polls the receiver first: a reply that is there wins over an elapsed deadline
Outcome(p) == IF pt[p].st = "replied" THEN "ok" ELSE IF pt[p].st = "dropped" THEN "senderr" ELSE "timeout"
\* the awaiting future (call itself, multi_call's sub-task, call_and_forward's task) sees the outcome; the receiver is gone
GroupComplete(p) == Cardinality(Group(p)) = pt[p].gn     \* multi_call: every request has been sent
Resolve(p) ==
  /\ pt[p].pc = "wait" /\ pt[p].sub = "none" /\ Completable(p) /\ GroupComplete(p)
  /\ SetP(p, [pt[p] EXCEPT !.sub = Outcome(p), !.rv = IF pt[p].st = "replied" THEN pt[p].v ELSE 0, !.rx = FALSE,
                           !.late = pt[p].hasT /\ now > pt[p].dl,
                           !.early = Outcome(p) = "timeout" /\ now < pt[p].dl])
  /\ UNCHANGED <<now, ac>>
ForwardDue(p) == pt[p].kind = "fwd" /\ pt[p].pc = "wait" /\ pt[p].sub = "ok" /\ pt[p].fw = "none"
\* call_and_forward: on Success the mapped reply is sent to the collector, once
Forward(p) ==
  /\ ForwardDue(p) /\ Collector \in Actors
  /\ IF Accepts(Collector)
       THEN SetP(p, [pt[p] EXCEPT !.fw = "sent", !.fwn = @ + 1]) /\ SetA(Collector, [ac[Collector] EXCEPT !.mq = Append(@, Fwd(p, pt[p].rv))])
       ELSE SetP(p, [pt[p] EXCEPT !.fw = "lost", !.fwn = @ + 1]) /\ UNCHANGED ac
  /\ UNCHANGED now
GroupResolved(p) == GroupComplete(p) /\ \A q \in Group(p) : pt[q].sub # "none"
Reportable(p) ==
  /\ pt[p].pc = "wait" /\ pt[p].sub # "none"
  /\ pt[p].kind = "multi" => GroupResolved(p)
  /\ (pt[p].kind = "fwd" /\ pt[p].sub = "ok") => pt[p].fw # "none"
\* the caller has its answer
Report(p) ==
  /\ Reportable(p)
  /\ SetP(p, [pt[p] EXCEPT !.pc = "done", !.late = @ \/ (pt[p].hasT /\ now > pt[p].dl)])
  /\ UNCHANGED <<now, ac>>
\* multi_call: a refused send abandons the requests already sent (their receivers are dropped)
Abandon(g) ==
  /\ \E p \in Ports : pt[p].kind = "multi" /\ pt[p].g = g /\ pt[p].sub = "sendfail" /\ pt[p].pc = "wait"
  /\ pt' = [p \in Ports |-> IF pt[p].kind = "multi" /\ pt[p].g = g /\ pt[p].pc = "wait"
                              THEN [pt[p] EXCEPT !.pc = "done", !.rx = FALSE, !.sub = IF @ = "none" THEN "abandoned" ELSE @]
                              ELSE pt[p]]
  /\ UNCHANGED <<now, ac>>

Advance(t2) ==
  /\ t2 > now /\ t2 <= MaxNow
  /\ VirtualClock => \A p \in Ports :
       /\ (pt[p].pc = "wait" /\ pt[p].sub = "none") => (~Completable(p) /\ (pt[p].hasT => pt[p].dl >= t2))
       /\ ~Reportable(p) /\ ~ForwardDue(p) /\ ~(pt[p].pc = "wait" /\ (pt[p].sub = "sendfail" \/ ~GroupComplete(p)))
  /\ now' = t2 /\ UNCHANGED <<ac, pt>>

-----------------------------------------------------------------------------
ActorStep(a) ==
  \/ TgSig(a) \/ TgStop(a) \/ TgTake(a) \/ TgTakeDrain(a) \/ TgCleanup(a) \/ HWake(a) \/ HFwd(a)
  \/ ("sleep" \in Policies /\ HSleep(a))
  \/ (ac[a].cur.k = "req" /\ HandleEnd(a, "ok"))
  \/ ("fail" \in Policies /\ ac[a].cur.k = "req" /\ HandleEnd(a, "err"))
  \/ \E p \in Ports :
       \/ ("reply" \in Policies /\ p = CurPort(a) /\ HReply(a, p, Val(a, p)))
       \/ ("both" \in Policies /\ pt[p].loc = "state" /\ HReply(a, p, Val(a, p)))
       \/ ("stash" \in Policies /\ HStash(a, p))
       \/ ("helper" \in Policies /\ HToHelper(a, p))
EnvStep(a) == EnvStop(a) \/ EnvKill(a) \/ EnvDrain(a)
PortStep(p) ==
  \/ /\ \A q \in Ports : (q < p /\ Plan[q].kind = "multi" /\ Plan[q].g = Plan[p].g /\ Plan[p].kind = "multi") => (pt[q].st # "none" /\ pt[q].sub = "none" /\ pt[q].pc = "wait")
     /\ Call(p, Plan[p].a, Plan[p].kind, Plan[p].g, Plan[p].gn, Plan[p].hasT, Plan[p].T)
  \/ XReply(p, Val(pt[p].at, p)) \/ DropPort(p) \/ Resolve(p) \/ Forward(p) \/ Report(p) \/ Abandon(pt[p].g)
NoAdvance == (\E a \in Actors : ActorStep(a) \/ EnvStep(a)) \/ (\E p \in Ports : PortStep(p))
Next == NoAdvance \/ (\E t2 \in (now + 1)..MaxNow : Advance(t2))
Spec == Init /\ [][Next]_vars

-----------------------------------------------------------------------------
(* Properties (C09) *)
\* Success(v) only with exactly the value sent on the port created for that call
NoCrossWire == \A p \in Ports : (pt[p].sub = "ok" => (pt[p].rv = pt[p].v /\ pt[p].v # 0)) /\ ~pt[p].cross
\* with a timeout T the answer is there no later than startAt + T; Timeout never before the deadline
Bounded == VirtualClock => \A p \in Ports : ~pt[p].late
NoEarlyTimeout == \A p \in Ports : ~pt[p].early
\* an open port always has a live holder: a queue whose receiver exists, a running handler, the state of an actor that has
\* not finished exiting, a helper task, or the caller it was returned to
HolderLive == \A p \in Ports : pt[p].st = "open" =>
  CASE pt[p].loc = "mq" -> ac[pt[p].at].st # "dead" /\ Req(p) \in {ac[pt[p].at].mq[i] : i \in 1..Len(ac[pt[p].at].mq)}
    [] pt[p].loc = "cur" -> ac[pt[p].at].st # "dead"
    [] pt[p].loc \in {"state", "helper", "ret"} -> TRUE
    [] OTHER -> FALSE
\* hang-freedom as safety at quiescence: when nothing but the clock can move, every caller is done, or waits for a deadline,
\* or its port is stashed in the state of an actor that is still running (the callee has not answered *yet*)
LegitPending(p) == (pt[p].hasT /\ now < pt[p].dl) \/ (pt[p].st = "open" /\ pt[p].loc = "state" /\ ac[pt[p].at].st \in {"run", "drain"})
NoHang == (~ENABLED NoAdvance) => \A p \in Ports : (pt[p].pc = "wait" /\ pt[p].sub = "none") => LegitPending(p)
\* call_and_forward forwards exactly once on Success and never otherwise; the collector sees the reply's value
ForwardOnce == \A p \in Ports : /\ pt[p].fwn <= 1 /\ pt[p].fwr <= pt[p].fwn
                                /\ (pt[p].fwn = 1 => pt[p].kind = "fwd" /\ pt[p].sub = "ok")
                                /\ (pt[p].pc = "done" /\ pt[p].kind = "fwd" /\ pt[p].sub = "ok") => pt[p].fwn = 1
\* multi_call reports only when every request of the group has its own outcome
MultiComplete == \A p \in Ports : (pt[p].pc = "done" /\ pt[p].kind = "multi" /\ pt[p].sub \notin {"sendfail", "abandoned"}) => GroupResolved(p)
TypeOk == now \in 0..MaxNow
=============================================================================
