SPECIFICATION Spec
CONSTANTS
  Timers = {"a", "b", "c"}
  Kinds <- KindsA
  Periods <- PeriodsA
  MaxNow = 4
  EnvOps = {"stop", "kill", "drain", "abort"}
  Stalls = {}
  VirtualClock = TRUE
  Instant = FALSE
  UnstartedKillsInterval = TRUE
INVARIANTS
  TypeOk AfterOnce AfterResult NeverEarly Exact AbortStops NoDeliveryToDead HandledInOrder IntervalEnds Reasons IntervalSurvivesStart
CHECK_DEADLOCK FALSE
