SPECIFICATION Spec
CONSTANTS
  Spawners = {"s1", "s2", "s3"}
  MaxAtt = 1
  Lookers = {"l1"}
  MaxLook = 2
  Proxies = {}
  PidFaults = TRUE
  ProxyUnregisters = FALSE
  Mutant = "none"
INVARIANTS
  TypeOK OneWinner LookupNotDead LookupLive NoStaleUnregister Reusable DevOnlyByProxy
PROPERTIES FailedSpawnInnocent
CHECK_DEADLOCK FALSE
