SPECIFICATION Spec
CONSTANTS
  Timers = {"a", "b"}
  Kinds <- KindsA
  Periods <- PeriodsA
  MaxNow = 5
  EnvOps = {"stop", "kill", "abort", "busy"}
  Stalls = {}
  VirtualClock = TRUE
  Instant = FALSE
  UnstartedKillsInterval = TRUE
INVARIANTS
  TypeOk AfterOnce AfterResult NeverEarly Exact AbortStops NoDeliveryToDead HandledInOrder IntervalEnds Reasons IntervalSurvivesStart
CHECK_DEADLOCK FALSE
