------------------------------ MODULE MC_Rpc ------------------------------
EXTENDS Rpc
PN(a, kind, g, gn, hasT, T) == [a |-> a, kind |-> kind, g |-> g, gn |-> gn, hasT |-> hasT, T |-> T]
P(a, kind, g, hasT, T) == PN(a, kind, g, IF kind = "multi" THEN 2 ELSE 1, hasT, T)
\* two concurrent plain calls (one with a timeout) to one callee
PlanA == [p \in Ports |-> IF p = 1 THEN P("c1", "call", 1, FALSE, 0) ELSE P("c1", "call", 2, TRUE, 2)]
\* a call and a call_and_forward with a timeout
PlanB == [p \in Ports |-> IF p = 1 THEN P("c1", "call", 1, TRUE, 1) ELSE P("c1", "fwd", 2, TRUE, 2)]
\* multi_call over two callees plus a plain call
PlanC == [p \in Ports |-> IF p = 1 THEN P("c1", "multi", 1, TRUE, 2) ELSE IF p = 2 THEN P("c2", "multi", 1, TRUE, 2) ELSE P("c1", "call", 2, FALSE, 0)]
\* multi_call over three callees: position i of the group is port i (its outcome and value must be its own whatever the
\* order in which the three sub-tasks resolve)
PlanD == [p \in Ports |-> PN(IF p = 1 THEN "c1" ELSE IF p = 2 THEN "c2" ELSE "c3", "multi", 1, 3, TRUE, 2)]
=============================================================================
