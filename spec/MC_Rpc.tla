------------------------------ MODULE MC_Rpc ------------------------------
EXTENDS Rpc
P(a, kind, g, hasT, T) == [a |-> a, kind |-> kind, g |-> g, gn |-> IF kind = "multi" THEN 2 ELSE 1, hasT |-> hasT, T |-> T]
\* two concurrent plain calls (one with a timeout) to one callee
PlanA == [p \in Ports |-> IF p = 1 THEN P("c1", "call", 1, FALSE, 0) ELSE P("c1", "call", 2, TRUE, 2)]
\* a call and a call_and_forward with a timeout
PlanB == [p \in Ports |-> IF p = 1 THEN P("c1", "call", 1, TRUE, 1) ELSE P("c1", "fwd", 2, TRUE, 2)]
\* multi_call over two callees plus a plain call
PlanC == [p \in Ports |-> IF p = 1 THEN P("c1", "multi", 1, TRUE, 2) ELSE IF p = 2 THEN P("c2", "multi", 1, TRUE, 2) ELSE P("c1", "call", 2, FALSE, 0)]
=============================================================================
