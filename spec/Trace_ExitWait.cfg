SPECIFICATION TSpec
CONSTANTS
  Waiters = {"w1", "w2", "w3", "w4", "w5", "w6"}
  MayTime = {"w1", "w2", "w3", "w4", "w5", "w6"}
  MayJoin = {"w1", "w2", "w3", "w4", "w5", "w6"}
  MaxRounds = 1000
  Cfgs <- TrCfgs
  RacerOn = TRUE
  LateOn = TRUE
  CheckFirst = FALSE
CONSTRAINT Progress
INVARIANTS
  WaitAccurate JoinAccurate NoneParkedAtEnd Monotone CleanupOnce
POSTCONDITION Accepted
CHECK_DEADLOCK FALSE
