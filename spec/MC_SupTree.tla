---------------------------- MODULE MC_SupTree ----------------------------
EXTENDS SupTree
\* chain p <- c <- g, q free
SupChain == [a \in Actors |-> IF a = "c" THEN "p" ELSE IF a = "g" THEN "c" ELSE NoA]
\* star: c and g under p, q free
SupStar == [a \in Actors |-> IF a \in {"c", "g"} THEN "p" ELSE NoA]
SupNone == [a \in Actors |-> NoA]
StRun == [a \in Actors |-> Running]
\* g already draining when the run starts
StDrainG == [a \in Actors |-> IF a = "g" THEN Draining ELSE Running]
\* c is being spawned (pre_start done, not linked yet)
StStartC == [a \in Actors |-> IF a = "c" THEN Starting ELSE Running]
LinkSmall == {<<"q", "p">>, <<"g", "q">>, <<"q", "c">>, <<"c", "q">>}
UnlinkSmall == {<<"c", "p">>, <<"g", "c">>}
NoPairs == {}
AllPairs == {<<c, s>> \in Actors \X Actors : c # s}
=============================================================================
