---------------------------- MODULE MC_SupTree ----------------------------
EXTENDS SupTree
\* chain p <- c <- g, q free
SupChain == [a \in Actors |-> IF a = "c" THEN "p" ELSE IF a = "g" THEN "c" ELSE NoA]
\* star: c and g under p, q free
SupStar == [a \in Actors |-> IF a \in {"c", "g"} THEN "p" ELSE NoA]
SupNone == [a \in Actors |-> NoA]
StRun == [a \in Actors |-> Running]
\* g already draining when the run starts
StDrainG == [a \in Actors |-> IF a = "g" THEN Draining ELSE Running]
\* c is being spawned (pre_start done, not linked yet)
StStartC == [a \in Actors |-> IF a = "c" THEN Starting ELSE Running]
LinkSmall == {<<"q", "p">>, <<"g", "q">>, <<"q", "c">>}
UnlinkSmall == {<<"c", "p">>}
\* quick tier: three actors p <- c, g free (draining); g may be linked under c or p, c relinked under g
SupPC == [a \in Actors |-> IF a = "c" THEN "p" ELSE NoA]
Link3 == {<<"g", "c">>, <<"g", "p">>, <<"c", "g">>}
Unlink3 == {<<"c", "p">>}
\* quick tier, depth 3: chain p <- c <- g with g draining; g may move up to p or be unlinked
LinkChain == {<<"g", "p">>}
UnlinkChain == {<<"g", "c">>}
LinkBig == {<<"q", "p">>, <<"g", "q">>, <<"q", "c">>, <<"c", "q">>}
UnlinkBig == {<<"c", "p">>, <<"g", "c">>}
\* spawn race: c (Starting) is linked under p by its spawner while p goes; g hangs under c already
SupSpawn == [a \in Actors |-> IF a = "g" THEN "c" ELSE NoA]
LinkSpawn == {<<"c", "p">>, <<"q", "c">>}
UnlinkSpawn == {<<"c", "p">>}
NoPairs == {}
AllPairs == {<<c, s>> \in Actors \X Actors : c # s}
=============================================================================
