----------------------------- MODULE Trace_Rpc -----------------------------
(* Trace validation for Rpc: every recorded line of an `rpc` harness run (callers' call / return
   observations, the scripted callees' handler observations, the logged fate of every reply port
   (obs.reply / obs.drop / obs.stash / obs.helper), the loop-level points of the actors) must be an
   enabled action of Rpc at the recorded virtual time.
   Two implementation steps have no line of their own: (1) the awaiting future observing the outcome
   is the same poll as the line that follows it (obs.call_ret for a plain call, obs.fwd_map /
   obs.fwd_done for call_and_forward's task), so `Resolve` is taken right before that line;
   (2) multi_call's per-request sub-tasks are spawned on a JoinSet, are not gated and have no hook:
   their `Resolve` is a silent step (DESIGN 2.3).                                                  *)
EXTENDS Rpc, Json, IOUtils, TLCExt

Rec == ndJsonDeserialize(IOEnv.TRACE)
Strict == IOEnv.STRICT = "1"
N == Len(Rec)

TrPlan == [p \in Ports |-> [a |-> "none", kind |-> "call", g |-> 0, gn |-> 1, hasT |-> FALSE, T |-> 0]]

VARIABLES l
tvars == <<vars, l>>
Ev == Rec[l]
X == Ev.x
Adv == l' = l + 1
Live == l <= N
IsA(a) == Live /\ Ev.a = a /\ (IF a \in {"reset", "obs.end"} THEN TRUE ELSE Ev.t = now)
IsX(a) == IsA(a) /\ X \in Actors
IsP(a) == IsA(a) /\ Ev.p \in Ports
Same == UNCHANGED vars

Internal == {"port.msg", "port.stop", "port.drain", "sig.handled", "guard.cleanup"}
IntX(lbl, A(_)) == IF Strict THEN IsX(lbl) /\ A(X) /\ Adv ELSE Live /\ (\E a \in Actors : A(a)) /\ l' = l
SkipInternal == ~Strict /\ Live /\ Ev.a \in Internal /\ Same /\ Adv

TAdvance == Live /\ Ev.a # "reset" /\ Ev.t > now /\ l' = l /\ Advance(Ev.t)

\* the outcome is observed in the poll that writes the next line
ResolveBefore ==
  /\ Live /\ Ev.a \in {"obs.call_ret", "obs.fwd_map", "obs.fwd_done"} /\ Ev.t = now /\ Ev.p \in Ports
  /\ pt[Ev.p].kind # "multi" /\ (Ev.a = "obs.call_ret" => pt[Ev.p].kind = "call")
  /\ Resolve(Ev.p) /\ l' = l
\* multi_call's un-gated sub-tasks
ResolveSilent == Live /\ Ev.a # "reset" /\ l' = l /\ \E p \in Ports : pt[p].kind = "multi" /\ Resolve(p)

RetOf(p) == IF pt[p].kind = "fwd" /\ pt[p].sub = "ok" THEN (IF pt[p].fw = "sent" THEN "ok" ELSE "fwdfail") ELSE pt[p].sub
CallerEv ==
  \/ /\ IsP("obs.call") /\ X \in Actors /\ Adv
     /\ Call(Ev.p, X, Ev.kind, Ev.g, Ev.gn, Ev.T >= 0, IF Ev.T >= 0 THEN Ev.T ELSE 0)
  \/ /\ IsP("obs.call_ret") /\ Report(Ev.p) /\ Adv
     /\ IF Ev.r = "closed" THEN RetOf(Ev.p) \in {"senderr", "sendfail"} ELSE Ev.r = RetOf(Ev.p)
     /\ pt[Ev.p].kind # "fwd" => Ev.v = pt[Ev.p].rv
  \/ IsA("obs.multi_fail") /\ Abandon(Ev.g) /\ Adv
  \/ IsP("obs.fwd_map") /\ Forward(Ev.p) /\ Ev.v = pt[Ev.p].rv /\ Adv
  \/ IsP("obs.fwd_done") /\ pt[Ev.p].kind = "fwd" /\ pt[Ev.p].sub # "none" /\ ~ForwardDue(Ev.p) /\ Same /\ Adv

PortEv ==
  \/ /\ IsP("obs.reply") /\ (Ev.d = 1) = pt[Ev.p].rx /\ Adv
     /\ XReply(Ev.p, Ev.v) \/ (pt[Ev.p].at \in Actors /\ HReply(pt[Ev.p].at, Ev.p, Ev.v))
  \/ IsP("obs.drop") /\ DropPort(Ev.p) /\ Adv
  \/ IsP("obs.stash") /\ pt[Ev.p].at \in Actors /\ HStash(pt[Ev.p].at, Ev.p) /\ Adv
  \/ IsP("obs.helper") /\ pt[Ev.p].at \in Actors /\ HToHelper(pt[Ev.p].at, Ev.p) /\ Adv

ActorEv ==
  \/ IsX("obs.stop") /\ Stop(X) /\ UNCHANGED <<now, pt>> /\ Adv
  \/ IsX("obs.kill") /\ Kill(X) /\ UNCHANGED <<now, pt>> /\ Adv
  \/ IsX("obs.drain") /\ Drain(X) /\ UNCHANGED <<now, pt>> /\ Adv
  \/ IntX("port.msg", TgTake)
  \/ IntX("port.drain", TgTakeDrain)
  \/ IntX("port.stop", TgStop)
  \/ IntX("sig.handled", TgSig)
  \/ IntX("guard.cleanup", TgCleanup)
  \/ IsX("obs.handle") /\ InHandler(X) /\ ac[X].cur = Req(Ev.p) /\ Same /\ Adv
  \/ IsX("obs.sleep") /\ HSleep(X) /\ Adv
  \/ IsX("obs.wake") /\ HWake(X) /\ Adv
  \/ IsX("obs.handle_end") /\ ac[X].cur.k = "req" /\ HandleEnd(X, Ev.o) /\ Adv
  \/ IsX("obs.fwd_recv") /\ ac[X].cur = Fwd(Ev.p, Ev.v) /\ HFwd(X) /\ Adv

\* quiescence: whoever still waits must hold a port that a running actor has stashed and not yet answered
End == /\ IsA("obs.end") /\ Adv /\ Same
       /\ \A p \in Ports : pt[p].pc = "wait" =>
            \/ pt[p].sub = "none" /\ pt[p].st = "open" /\ pt[p].loc = "state" /\ ac[pt[p].at].st \in {"run", "drain"}
            \/ pt[p].sub # "none" /\ pt[p].kind = "multi" /\ \E q \in Group(p) : pt[q].sub = "none"     \* waits for a group mate
       /\ {p \in Ports : pt[p].pc = "wait"} = {Ev.fin.pending[i] : i \in 1..Len(Ev.fin.pending)}
       /\ \A i \in 1..Len(Ev.fin.actors) : LET f == Ev.fin.actors[i] IN
            f.x \in Actors /\ (f.st = 6) = (ac[f.x].st = "dead") /\ (f.st = 5) = (ac[f.x].st = "stopping") /\ (f.st = 4) = (ac[f.x].st = "drain")

Reset == IsA("reset") /\ Adv /\ now' = 0 /\ ac' = [a \in Actors |-> InitActor] /\ pt' = [p \in Ports |-> InitPort]

TNext == Reset \/ End \/ TAdvance \/ ResolveBefore \/ ResolveSilent \/ CallerEv \/ PortEv \/ ActorEv \/ SkipInternal

TInit == Init /\ l = 1 /\ TLCSet(42, 1)
TSpec == TInit /\ [][TNext]_tvars
Progress == /\ TLCSet(42, IF l > TLCGet(42) THEN l ELSE TLCGet(42))
            \* EARLY=1 (lenient validation): one behaviour that explains the whole trace is enough, stop there
            /\ (IF l > N /\ IOEnv.EARLY = "1" THEN PrintT("ACCEPTED_EARLY") /\ TLCSet("exit", TRUE) ELSE TRUE)
Accepted == IF TLCGet(42) > N THEN TRUE
            ELSE /\ PrintT(<<"REJECTED_AT", TLCGet(42), Rec[TLCGet(42)]>>)
                 /\ FALSE
=============================================================================
