---------------------------- MODULE MC_RemoteActor ----------------------------
EXTENDS RemoteActor
\* all senders through the proxy on one side / one sender per side
SameSide == [s \in Senders |-> "ab"]
BothSides == [s \in Senders |-> IF s = CHOOSE t \in Senders : TRUE THEN "ab" ELSE "ba"]
=============================================================================
