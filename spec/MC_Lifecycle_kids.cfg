SPECIFICATION Spec
CONSTANTS
  Actors = {"S", "A", "B"}
  NoA = "none"
  SupOf <- SupOfKids
  MaxMsgs <- MaxMsgsKids
  MaxInject <- MaxInjectKids
  Outcomes = {"ok"}
  MaxYield = 0
  EnvOps <- EnvOpsKids
  KillCarriesState = FALSE
  Once = TRUE
  Local = {}
  MonPairs = {}
  Undecodable = {}
  SweepKillsDraining = {TRUE}
INVARIANTS
  OrderOk PostStopOnlyGraceful NoOverlap NoStartAfterKill NoHandlerAfterStop KillWins SupBeforeMsg
  OneTerminal TerminalIffRan StartedOrder DeadMeansClean FailedStartSilent DeadLeavesNothing NoChildOfDead
CHECK_DEADLOCK FALSE
