-------------------------- MODULE MC_ClusterAuth --------------------------
EXTENDS ClusterAuth
RolesBoth == [s \in Sessions |-> {"server", "client"}]
RolesPair == [s \in Sessions |-> IF s = "s1" THEN {"server"} ELSE {"client"}]
=============================================================================
