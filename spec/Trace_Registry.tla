-------------------------- MODULE Trace_Registry --------------------------
(* Trace validation for Registry: engine-H batches of spawner / looker / proxy threads working on one
   name. Actor identities are logged as (role, attempt) pairs: fields rs / rk.                     *)
EXTENDS Registry, Integers, Sequences, Json, IOUtils, TLCExt

Rec == ndJsonDeserialize(IOEnv.TRACE)
Strict == IOEnv.STRICT = "1"
N == Len(Rec)

VARIABLE l
tvars == <<vars, l>>
Ev == Rec[l]
Adv == l' = l + 1
Live_ == l <= N
IsA(a) == Live_ /\ Ev.a = a
Same == UNCHANGED vars
B(i) == i = 1
Flag(b) == IF b THEN 1 ELSE 0

Inl(lbl, who, A) == IF Strict THEN IsA(lbl) /\ Ev.who = who /\ A /\ Adv
                              ELSE Live_ /\ A /\ l' = l
Obs(lbl, who, A) == IsA(lbl) /\ Ev.who = who /\ A /\ Adv
\* statuses below Stopping all mean "not stopping yet"
Low(s) == IF s < Stopping THEN Running ELSE s

FreeDupDecide(s) ==
  /\ spc[s] = "begin" /\ name # None /\ spc' = [spc EXCEPT ![s] = "dupdecided"]
  /\ UNCHANGED <<name, pids, st, att, sres, xn, xelect, waited, lpc, lgot, nlook, seen, stale, dev>>
FreeDupRet(s) ==
  /\ spc[s] = "dupdecided" /\ sres' = [sres EXCEPT ![Cur(s)] = "dup"] /\ spc' = [spc EXCEPT ![s] = "idle"]
  /\ UNCHANGED <<name, pids, st, att, xn, xelect, waited, lpc, lgot, nlook, seen, stale, dev>>

SpawnEv(s) ==
  \/ Obs("obs.spawn_begin", s, SBegin(s))
  \/ Inl("new.named", s, SRegNameOk(s))
  \/ Inl("new.pid", s, SRegPidOk(s))
  \/ Inl("new.pidfail", s, SRegPidFail(s))
  \/ Inl("new.rollback", s, SRollback(s))
  \/ Obs("obs.spawn_ret", s, Ev.ok = 0 /\ Ev.err = "dup" /\ SRegNameDup(s))
  \/ Obs("obs.spawn_ret", s, Ev.ok = 0 /\ Ev.err = "pid" /\ SRetErr(s))
  \* free-running runs (family registry-free; real threads, no scheduler): the result line is logged some time after
  \* the call returned, so the failed registration took effect at some moment between the intent line and the result
  \* line. (Engine-H runs never log this label: the decided state has no other way out.)
  \/ (~Strict /\ Live_ /\ FreeDupDecide(s) /\ l' = l)
  \/ Obs("obs.spawn_ret_free", s, Ev.ok = 0 /\ Ev.err = "dup" /\ FreeDupRet(s))
  \/ Obs("obs.spawn_ret", s, Ev.ok = 1 /\ SRetOk(s) /\ Ev.rs = s /\ Ev.rk = att[s])
ExitEv(p) ==
  \* the actor's own last lookup closes its live window (d / pidreg = -1: a proxy, nothing to look up)
  \/ Obs("obs.exit_begin", p, /\ SExitBegin(p)
                              /\ (IF Ev.d = -1 THEN TRUE ELSE B(Ev.d) = (name = Cur(p)))
                              /\ (IF Ev.pidreg = -1 THEN TRUE ELSE B(Ev.pidreg) = (Cur(p) \in pids)))
  \/ Inl("status.set", p, \E v \in {Stopping, Stopped} : XFetch(p, v) /\ (Strict => (Ev.d = v /\ Low(Ev.prev) = Low(st[Cur(p)]))))
  \/ Inl("cleanup.pid", p, XPid(p))
  \/ Inl("cleanup.name", p, XName(p))
  \/ Obs("obs.waited", p, SWaited(p))
ProxyEv(p) == Obs("obs.proxy_new", p, PNew(p))
LookEv(k) ==
  \/ Obs("obs.where_is", k, LWhereIs(k) /\ name = <<Ev.rs, Ev.rk>>)
  \/ Obs("obs.lookup_st", k, LStatus(k) /\ (IF lgot[k] = None THEN Ev.st = -1 ELSE Ev.st = Low(st[lgot[k]])))
  \/ Obs("obs.where_is_pid", k, LRead(k) /\ B(Ev.found) = (<<Ev.rs, Ev.rk>> \in pids))
  \/ Obs("obs.registered", k, LRead(k) /\ B(Ev.d) = (name # None))

EndOk == /\ name = <<Ev.rs, Ev.rk>>
         /\ pids = {Ev.pids[i] : i \in 1..Len(Ev.pids)}
         /\ \A p \in Procs : spc[p] \in {"idle", "end"}
End == /\ IsA("obs.end") /\ EndOk /\ Same /\ Adv
       /\ (dev # {} => PrintT(<<"DEVIATION", dev>>))

InternalLabels == {"new.named", "new.pid", "new.pidfail", "new.rollback", "status.set", "cleanup.pid", "cleanup.name"}
SkipInternal == ~Strict /\ Live_ /\ Ev.a \in InternalLabels /\ Same /\ Adv

Reset ==
  /\ IsA("reset") /\ Adv
  /\ name' = None /\ pids' = {} /\ st' = [i \in Id |-> Unborn]
  /\ spc' = [p \in Procs |-> "idle"] /\ att' = [p \in Procs |-> 0]
  /\ sres' = [i \in Id |-> "none"] /\ xn' = [p \in Procs |-> 0] /\ xelect' = [p \in Procs |-> FALSE]
  /\ waited' = [i \in Id |-> FALSE]
  /\ lpc' = [k \in Lookers |-> "idle"] /\ lgot' = [k \in Lookers |-> None] /\ nlook' = [k \in Lookers |-> 0]
  /\ seen' = [p \in Procs |-> None] /\ stale' = FALSE /\ dev' = {}

\* drain() on some actor of the run: at this abstraction (statuses below Stopping are one) it changes nothing
DrainEv == IsA("obs.drain") /\ Same /\ Adv
TNext == \/ Reset \/ End \/ SkipInternal \/ DrainEv
         \/ \E s \in Spawners : SpawnEv(s) \/ ExitEv(s)
         \/ \E p \in Proxies : ProxyEv(p) \/ ExitEv(p)
         \/ \E k \in Lookers : LookEv(k)

TInit == Init /\ l = 1 /\ TLCSet(42, 1)
TSpec == TInit /\ [][TNext]_tvars
Progress == /\ TLCSet(42, IF l > TLCGet(42) THEN l ELSE TLCGet(42))
            \* EARLY=1 (lenient validation): one behaviour that explains the whole trace is enough, stop there
            /\ (IF l > N /\ IOEnv.EARLY = "1" THEN PrintT("ACCEPTED_EARLY") /\ TLCSet("exit", TRUE) ELSE TRUE)
Accepted == IF TLCGet(42) > N THEN TRUE
            ELSE /\ PrintT(<<"REJECTED_AT", TLCGet(42), Rec[TLCGet(42)]>>)
                 /\ FALSE
=============================================================================
