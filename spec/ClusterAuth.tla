---------------------------- MODULE ClusterAuth ----------------------------
(* The authentication gate of a ractor_cluster node session (node/auth.rs: the two handshake state
   machines; node/node_session.rs: handle_auth, handle_control, handle_node, authorized_local_actor,
   after_authenticated; node.rs: GetSessions) against an adversarial peer, at the grain of one
   inbound frame handled by the NodeSession actor (a handler runs alone on its state).
   Decides C17: nothing a peer sends takes effect before the handshake proved knowledge of the
   cookie; Close is absorbing; casts and calls reach advertised, remotable actors only.
   Also carries the session-level part of C19: a transport fault (EOF, framing error) ends exactly
   the session it happens on.                                                                   *)
EXTENDS Naturals, Sequences, FiniteSets, TLC

CONSTANTS Sessions,      \* session ids
          Roles,         \* [Sessions -> SUBSET {"server", "client"}]: roles the NODE may play on a session
          KnowsCookie,   \* TRUE: the adversary can compute right digests
          CheckReplies,  \* what CheckSession may answer when a peer name arrives ({"Ok"} with one peer name)
          Acc,           \* TRUE: responses / deliveries accumulate until observed (trace validation)
          CtlKinds,      \* control messages the adversary uses (bounds the model)
          PidClasses,    \* target pid classes the adversary uses (bounds the model)
          Reflection     \* TRUE: the adversary may also relay digests between sessions (named deviation DigestReflection)

-----------------------------------------------------------------------------
(* The two state machines of node/auth.rs as pure functions of (state kind, message class).
   A message is [c |-> class, k |-> kind, p |-> parameter, n].                                    *)
SrvInit == "WaitingOnPeerName"
CliInit == "WaitingForServerStatus"
SrvNext(st, m) ==
  IF m.k = "Name" /\ st = "WaitingOnPeerName" THEN "HavePeerName"
  ELSE IF m.k = "CS" /\ st = "WaitingOnClientStatus"
         THEN (IF m.p = "true" THEN "WaitingOnClientChallengeReply" ELSE "Close")
  ELSE IF m.k = "CCh" /\ st = "WaitingOnClientChallengeReply"
         THEN (IF m.p = "good" THEN "Ok" ELSE "Close")
  ELSE "Close"      \* empty, unknown, out of order, wrong digest; Close and Ok included
SrvStartChallenge(st) == IF st \in {"WaitingOnClientStatus", "HavePeerName"} THEN "WaitingOnClientChallengeReply" ELSE "Close"
CliNext(st, m) ==
  IF m.k = "SS" /\ st = "WaitingForServerStatus" THEN "WaitingForServerChallenge"
  ELSE IF m.k = "SCh" /\ st = "WaitingForServerChallenge" THEN "WaitingForServerChallengeAck"
  ELSE IF m.k = "SAck" /\ st = "WaitingForServerChallengeAck"
         THEN (IF m.p = "good" THEN "Ok" ELSE "Close")
  ELSE "Close"

-----------------------------------------------------------------------------
(* Adversary alphabet *)
M(c, k, p) == [c |-> c, k |-> k, p |-> p, n |-> 0]     \* n: sender's serial number (node messages in traces)
Statuses == {"Ok", "OkSimultaneous", "NotOk", "NotAllowed", "Alive"}
Digests == IF KnowsCookie THEN {"good", "bad"} ELSE {"bad"}
\* Reflection: a node that dialled out answers ANY ServerChallenge with sha256(challenge || cookie); the
\* adversary hands it the challenge a server-side session of the same node is waiting on ("reflect") and
\* relays the answer there ("reflected").
ReflMsgs == IF Reflection THEN {M("auth", "SCh", "reflect"), M("auth", "CCh", "reflected")} ELSE {}
AuthMsgs == {M("auth", "Name", ""), M("auth", "SCh", ""), M("auth", "Empty", "")} \cup ReflMsgs
            \cup {M("auth", "SS", s) : s \in Statuses}
            \cup {M("auth", "CS", b) : b \in {"true", "false"}}
            \cup {M("auth", k, d) : k \in {"CCh", "SAck"}, d \in Digests}
AllCtlKinds == {"Spawn", "PgJoin", "PgLeave", "Terminate", "Ready", "Ping", "Enum"}
CtlMsgs == {M("ctl", k, "") : k \in CtlKinds}
LocalPids == {"adv", "unadv", "nonrem", "none"}     \* classes of local target pids
Remotable == {"adv", "unadv"}
NodeMsgs == {M("node", k, p) : k \in {"Cast", "Call", "Reply"}, p \in PidClasses}
FaultMsgs == {M("x", "Eof", ""), M("x", "BadFrame", "")}
Alphabet == AuthMsgs \cup CtlMsgs \cup NodeMsgs \cup FaultMsgs

VARIABLES ss,    \* per-session record, see NoSession
          up     \* the NodeServer is alive
vars == <<ss, up>>

NoSession == [role |-> "none", alive |-> FALSE, fsm |-> "none", ready |-> "Open", synced |-> FALSE,
              advd |-> {}, proxies |-> {}, pgm |-> {}, listed |-> FALSE,
              out |-> <<>>,      \* frames sent to the peer (since the last observation when Acc)
              dlv |-> <<>>,      \* messages put into local mailboxes: <<kind, pid class, serial>>
              \* monitors
              lent |-> {},       \* client side: server-side sessions whose pending challenge this session signed
              eff |-> {}, acc |-> <<>>, everOk |-> FALSE, wasClose |-> FALSE, ownFault |-> FALSE, sawBad |-> FALSE]

Init == ss = [s \in Sessions |-> NoSession] /\ up = TRUE

SSName(c) == CASE c = "Ok" -> "SS.Ok" [] c = "OkSimultaneous" -> "SS.OkSimultaneous" [] c = "NotOk" -> "SS.NotOk"
               [] c = "NotAllowed" -> "SS.NotAllowed" [] c = "Alive" -> "SS.Alive"
E(kind, p) == <<kind, p>>      \* an effect
Cat(old, new) == IF Acc THEN old \o new ELSE new
Set(s, r) == ss' = [ss EXCEPT ![s] = r] /\ up' = up

\* ConnectionOpened(External): the session actor and its reader exist; a client sends its name
Open(s, r) ==
  /\ ss[s].role = "none" /\ r \in Roles[s]
  /\ Set(s, [NoSession EXCEPT !.role = r, !.alive = TRUE,
                              !.fsm = IF r = "server" THEN SrvInit ELSE CliInit,
                              !.out = IF r = "client" THEN <<"Name">> ELSE <<>>])

\* the session actor stops: children (proxies, transport) go with it, the node server forgets it
Dead(r) == [r EXCEPT !.alive = FALSE, !.proxies = {}, !.pgm = {}, !.listed = FALSE]

\* the handshake just completed: ConnectionAuthenticated + after_authenticated (one peer name, so
\* the election keeps this session): listed, advertise the remotable pids, sync, Ready
Authenticated(r, resp) ==
  [r EXCEPT !.fsm = "Ok", !.everOk = TRUE, !.listed = TRUE, !.synced = TRUE, !.advd = {"adv"},
            !.ready = IF r.ready = "Open" THEN "SyncSent" ELSE "Ready",
            !.out = Cat(r.out, resp \o <<"Spawn", "Ready">>),
            !.eff = @ \cup {E("listed", "")}]

Closing(r, resp) == Dead([r EXCEPT !.fsm = "Close", !.wasClose = TRUE, !.ownFault = TRUE, !.out = Cat(r.out, resp)])
Took(r, m) == [r EXCEPT !.acc = Append(@, <<m.k, IF m.k \in {"CCh", "SAck", "CS"} THEN m.p ELSE "">>)]

\* handle_auth
AuthServer(s, m, r) ==
  LET n1 == SrvNext(r.fsm, m) IN
  CASE n1 = "HavePeerName" ->
         \E c \in CheckReplies :
           IF c \in {"Ok", "OkSimultaneous"}
             THEN Set(s, [Took(r, m) EXCEPT !.fsm = SrvStartChallenge(n1), !.out = Cat(r.out, <<SSName(c), "SCh">>)])
           ELSE IF c = "Alive"
             THEN Set(s, [Took(r, m) EXCEPT !.fsm = "WaitingOnClientStatus", !.out = Cat(r.out, <<"SS.Alive">>)])
           ELSE Set(s, Closing(r, <<SSName(c)>>))
    [] n1 = "Ok" -> Set(s, Authenticated(Took(r, m), <<"SAck">>))
    [] n1 = "Close" -> Set(s, Closing(r, <<>>))
    [] OTHER -> Set(s, [Took(r, m) EXCEPT !.fsm = n1, !.out = Cat(r.out, <<>>)])   \* stored as is, nothing sent
AuthClient(s, m, r) ==
  LET n1 == CliNext(r.fsm, m) IN
  CASE n1 = "WaitingForServerChallenge" ->
         IF m.p \in {"NotOk", "NotAllowed"} THEN Set(s, Closing(r, <<>>))
         ELSE Set(s, [Took(r, m) EXCEPT !.fsm = n1, !.out = Cat(r.out, IF m.p = "Alive" THEN <<"CS.true">> ELSE <<>>)])
    [] n1 = "WaitingForServerChallengeAck" -> Set(s, [Took(r, m) EXCEPT !.fsm = n1, !.out = Cat(r.out, <<"CCh">>)])
    [] n1 = "Ok" -> Set(s, Authenticated(Took(r, m), <<>>))
    [] n1 = "Close" -> Set(s, Closing(r, <<>>))
    [] OTHER -> Set(s, [Took(r, m) EXCEPT !.fsm = n1, !.out = Cat(r.out, <<>>)])

\* handle_control: behind the auth.is_ok() gate
Control(s, m, r) ==
  CASE m.k = "Ready" -> Set(s, [r EXCEPT !.ready = IF @ = "Open" THEN "SyncReceived" ELSE IF @ = "SyncSent" THEN "Ready" ELSE @,
                                         !.out = Cat(r.out, <<>>)])
    [] m.k = "Spawn" -> Set(s, [r EXCEPT !.proxies = @ \cup {"r1"}, !.eff = @ \cup {E("proxy", "")}, !.out = Cat(r.out, <<>>)])
    [] m.k = "PgJoin" -> Set(s, [r EXCEPT !.proxies = @ \cup {"r1"}, !.pgm = @ \cup {"r1"}, !.eff = @ \cup {E("proxy", ""), E("pg", "")},
                                          !.out = Cat(r.out, <<>>)])
    [] m.k = "PgLeave" -> Set(s, [r EXCEPT !.pgm = {}, !.eff = IF r.pgm # {} THEN @ \cup {E("pg", "")} ELSE @, !.out = Cat(r.out, <<>>)])
    [] m.k = "Terminate" -> Set(s, [r EXCEPT !.proxies = {}, !.pgm = {}, !.out = Cat(r.out, <<>>)])
    [] m.k = "Ping" -> Set(s, [r EXCEPT !.out = Cat(r.out, <<"Pong">>), !.eff = @ \cup {E("reply", "")}])
    [] m.k = "Enum" -> Set(s, [r EXCEPT !.out = Cat(r.out, <<"NodeSessions">>), !.eff = @ \cup {E("reply", "")}])

\* handle_node: behind the auth.is_ok() gate; authorized_local_actor = advertised and remotable
Authorized(r, p) == p \in r.advd /\ p \in Remotable
Node(s, m, r) ==
  IF m.k \in {"Cast", "Call"} /\ Authorized(r, m.p)
    THEN Set(s, [r EXCEPT !.dlv = Cat(r.dlv, <<<<m.k, m.p, m.n>>>>), !.eff = @ \cup {E("deliver", m.p)},
                          !.out = Cat(r.out, IF m.k = "Call" THEN <<"Reply">> ELSE <<>>)])
    ELSE Set(s, [r EXCEPT !.out = Cat(r.out, <<>>), !.dlv = Cat(r.dlv, <<>>)])

\* what the protocol expects next (a property-level table, independent of SrvNext / CliNext)
Expects(st) ==
  CASE st = "WaitingOnPeerName" -> {M("auth", "Name", "")}
    [] st = "WaitingOnClientStatus" -> {M("auth", "CS", "true")}
    [] st = "WaitingOnClientChallengeReply" -> {M("auth", "CCh", "good")}
    [] st = "WaitingForServerStatus" -> {M("auth", "SS", x) : x \in {"Ok", "OkSimultaneous", "Alive"}}
    [] st = "WaitingForServerChallenge" -> {M("auth", "SCh", ""), M("auth", "SCh", "reflect")}
    [] st = "WaitingForServerChallengeAck" -> {M("auth", "SAck", "good")}
    [] OTHER -> {}
Note(r, m) == [r EXCEPT !.sawBad = @ \/ (m.c = "auth" /\ r.fsm # "Ok" /\ m \notin Expects(r.fsm))]

\* one inbound frame (or transport fault) on session s
Quiet(r) == [r EXCEPT !.out = Cat(r.out, <<>>), !.dlv = Cat(r.dlv, <<>>)]
\* what a relayed digest is worth: right iff some client-side session signed this session's challenge
Waiting(s) == ss[s].role = "server" /\ ss[s].alive /\ ss[s].fsm = "WaitingOnClientChallengeReply"
\* admitted, not required: with Reflection a relayed digest MAY be the right one (both outcomes are behaviours)
Eff(s, m) == IF m.c = "auth" /\ m.p = "reflected"
               THEN {[m EXCEPT !.p = "bad"]} \cup
                    (IF Reflection /\ \E t \in Sessions : s \in ss[t].lent THEN {[m EXCEPT !.p = "good"]} ELSE {})
               ELSE {m}
Lend(s, m, r) == IF m.c = "auth" /\ m.k = "SCh" /\ m.p = "reflect" /\ r.role = "client" /\ r.fsm = "WaitingForServerChallenge"
                   THEN [r EXCEPT !.lent = {t \in Sessions : Waiting(t)}] ELSE r
Reflected(s, m) == m.c = "auth" /\ m.p = "reflected" /\ [m EXCEPT !.p = "good"] \in Eff(s, m)
Recv(s, m0) ==
  /\ ss[s].role # "none"
  /\ IF ~ss[s].alive THEN UNCHANGED vars
     ELSE \E m \in Eff(s, m0) :
          LET r == Lend(s, m0, Note(ss[s], m)) IN
          CASE m.c = "x" -> Set(s, Dead([Quiet(r) EXCEPT !.ownFault = TRUE]))
            [] m.c = "auth" -> IF r.fsm = "Ok" THEN Set(s, Quiet(r))
                               ELSE IF r.role = "server" THEN AuthServer(s, m, r) ELSE AuthClient(s, m, r)
            [] m.c = "ctl" -> IF r.fsm = "Ok" THEN Control(s, m, r) ELSE Set(s, Quiet(r))
            [] m.c = "node" -> IF r.fsm = "Ok" THEN Node(s, m, r) ELSE Set(s, Quiet(r))

\* a remotable actor spawned after the handshake is advertised when the session handles the
\* pid-registry event (environment step; the harness cannot produce the window before it)
Advertise(s) ==
  /\ ss[s].alive /\ ss[s].synced /\ "unadv" \notin ss[s].advd
  /\ Set(s, [ss[s] EXCEPT !.advd = @ \cup {"unadv"}, !.out = Cat(ss[s].out, <<"Spawn">>)])

Next == \E s \in Sessions : \/ \E r \in {"server", "client"} : Open(s, r)
                            \/ \E m \in Alphabet : Recv(s, m)
                            \/ Advertise(s)
Spec == Init /\ [][Next]_vars

-----------------------------------------------------------------------------
(* Properties *)
AuthOk(s) == ss[s].fsm = "Ok"
\* C17: without the cookie nothing ever takes effect and no session authenticates
NoCookieNoEffect == (~KnowsCookie /\ ~Reflection) => \A s \in Sessions : ss[s].eff = {} /\ ~AuthOk(s) /\ ~ss[s].everOk /\ ~ss[s].listed
\* the deviation, stated: with relaying, a peer that never knew the cookie does get in (expected to be
\* violated in MC_ClusterAuth_reflect.cfg; every other configuration has Reflection = FALSE)
NoCookieNoAuth == ~KnowsCookie => \A s \in Sessions : ~ss[s].everOk
\* C17: Close is absorbing: a session that saw a malformed / out-of-order / wrong-digest message
\* never becomes authenticated (and is gone)
CloseAbsorbing == \A s \in Sessions : (ss[s].wasClose \/ ss[s].sawBad) => (ss[s].fsm = "Close" /\ ~ss[s].alive)
\* C17: effects only after the full handshake, in order
FullHandshake(s) ==
  IF ss[s].role = "server" THEN ss[s].acc \in {<<<<"Name", "">>, <<"CCh", "good">>>>, <<<<"Name", "">>, <<"CS", "true">>, <<"CCh", "good">>>>}
  ELSE ss[s].acc = <<<<"SS", "">>, <<"SCh", "">>, <<"SAck", "good">>>>
EffectsOnlyAfterHandshake == \A s \in Sessions :
  /\ (ss[s].eff # {} \/ ss[s].listed \/ ss[s].proxies # {} \/ ss[s].pgm # {} \/ ss[s].synced) => ss[s].everOk
  /\ ss[s].everOk => FullHandshake(s)
\* C17: casts and calls reach advertised, remotable actors only
DeliverOnlyAuthorized == \A s \in Sessions : \A e \in ss[s].eff :
  e[1] = "deliver" => (e[2] \in Remotable /\ e[2] \in ss[s].advd)
\* C19 (c): a session ends only through its own fault; the node server outlives all of them
OwnFaultOnly == up /\ \A s \in Sessions : (ss[s].role # "none" /\ ~ss[s].alive) => ss[s].ownFault
DeadIsClean == \A s \in Sessions : ~ss[s].alive => (ss[s].proxies = {} /\ ss[s].pgm = {} /\ ~ss[s].listed)
=============================================================================
