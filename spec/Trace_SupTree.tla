--------------------------- MODULE Trace_SupTree ---------------------------
(* Trace validation for SupTree. Two harness families write the same alphabet:
     suptree-h  detached cells on controlled OS threads (engine H): actor threads ("a1"..) run the
                exit sequence of their cell, environment threads ("t1"..) link / unlink / kill / drain;
     suptree-t  whole actors on the gated tokio runtime (engine T): spawn_linked racing exits.
   STRICT=1: every line is consumed. STRICT=0 (lenient): the observations ("obs." labels) and the lines that
   record an effect on shared memory -- the notes written inside the tree-lock regions, the Kill
   sent by a sweep, the status stores -- are consumed. The control-flow points in between
   (guard.*, term.take) are skipped and their actions are taken silently, so a property-preserving
   reordering of those steps is a divergence, not a violation.                                   *)
EXTENDS SupTree, Sequences, Json, IOUtils, TLCExt

CONSTANT TIds       \* ids of environment threads / spawner contexts

Rec == ndJsonDeserialize(IOEnv.TRACE)
Strict == IOEnv.STRICT = "1"
N == Len(Rec)

TrNoSup == [a \in Actors |-> NoA]
TrRun == [a \in Actors |-> Running]
TrNoPairs == {}

NoOp == [k |-> "none", c |-> NoA, s |-> NoA, done |-> FALSE, res |-> FALSE]
VARIABLES l,     \* next line of the trace
          top    \* the operation each environment thread is inside (between obs.call and obs.ret)
tvars == <<vars, l, top>>
Ev == Rec[l]
Adv == l' = l + 1
Stay == l' = l
Live == l <= N
IsA(a) == Live /\ Ev.a = a
Same == UNCHANGED vars
NT == UNCHANGED top

\* an internal step of process `who` logged under `lbl`
Int(lbl, who, A) == IF Strict THEN IsA(lbl) /\ Ev.who = who /\ A /\ Adv
                              ELSE Live /\ A /\ Stay
Obs(lbl, who, A) == IsA(lbl) /\ Ev.who = who /\ A /\ Adv
\* a recorded effect on shared memory: consumed in both modes
Eff(lbl, who, A) == IsA(lbl) /\ Ev.who = who /\ A /\ Adv

-----------------------------------------------------------------------------
(* environment threads *)
EnvRest == UNCHANGED <<mayExit, Proc, nenv, dev>>
\* what the caller saw of a status just before / after the call (9 = not observed). Below Draining
\* the exact value does not matter to the tree; lenient validation does not track it.
Norm(v) == IF v < Draining THEN Running ELSE v
StSeen(a, v) == IF v = 9 THEN TRUE ELSE IF a \notin Actors THEN TRUE
                ELSE (IF Strict THEN st[a] = v ELSE Norm(st[a]) = Norm(v))
Call(t) ==
  /\ IsA("obs.call") /\ Ev.who = t /\ top[t].k = "none" /\ Ev.c \in Actors
  /\ StSeen(Ev.c, Ev.cst) /\ StSeen(Ev.s, Ev.sst)
  /\ top' = [top EXCEPT ![t] = [k |-> Ev.k, c |-> Ev.c, s |-> Ev.s, done |-> FALSE, res |-> FALSE]]
  /\ Same /\ Adv
Done(t, r) == top' = [top EXCEPT ![t] = [@ EXCEPT !.done = TRUE, !.res = r]]
OpLink(t) ==
  LET o == top[t] IN
  Eff("link.done", t,
      /\ o.k \in {"link", "spawn"} /\ ~o.done /\ o.s \in Actors
      /\ Ev.obj = o.c /\ Ev.sup = o.s /\ (Ev.d = 1) = LinkOk(o.c, o.s)
      /\ LinkRegion(o.c, o.s) /\ Done(t, LinkOk(o.c, o.s))
      /\ UNCHANGED <<st, sig>> /\ EnvRest)
OpUnlink(t) ==
  LET o == top[t] IN
  Eff("unlink.done", t,
      /\ o.k = "unlink" /\ ~o.done /\ o.s \in Actors
      /\ Ev.obj = o.c /\ Ev.sup = o.s /\ (Ev.d = 1) = (sup[o.c] = o.s)
      /\ UnlinkRegion(o.c, o.s) /\ Done(t, TRUE)
      /\ UNCHANGED <<st, sig>> /\ EnvRest)
OpDrain(t) ==
  LET o == top[t] IN
  Eff("drain.status", t,
      /\ o.k = "drain" /\ ~o.done
      /\ Ev.obj = o.c
      /\ DrainWord(o.c) /\ Done(t, TRUE)
      /\ UNCHANGED <<Tree, sig>> /\ EnvRest)
\* kill() has no point of its own: the one-shot send is taken at the return
RetKill(t) ==
  /\ IsA("obs.ret") /\ Ev.who = t /\ Ev.k = "kill" /\ top[t].k = "kill"
  /\ StSeen(Ev.c, Ev.cst)
  /\ KillWord(top[t].c) /\ UNCHANGED <<st, Tree>> /\ EnvRest
  /\ top' = [top EXCEPT ![t] = NoOp] /\ Adv
\* spawn_linked: r = 1 iff the actor started, which needs the link to have been made; a spawn may also
\* fail before it gets as far as linking. link(): the public call returns nothing; r is what the
\* caller sees right afterwards (c's supervisor is s and c is among s's children)
Ret(t) ==
  LET o == top[t] IN
  /\ IsA("obs.ret") /\ Ev.who = t /\ Ev.k = o.k /\ o.k \in {"link", "spawn", "unlink", "drain"}
  /\ StSeen(o.c, Ev.cst) /\ StSeen(o.s, Ev.sst)
  /\ IF o.k = "spawn" THEN (IF Ev.r = 1 THEN (o.done /\ o.res) ELSE (~o.done \/ ~o.res))
     ELSE (IF o.k = "link" THEN (o.done /\ ((Ev.r = 1) = (sup[o.c] = o.s /\ o.c \in Kids(o.s)))) ELSE o.done)
  /\ top' = [top EXCEPT ![t] = NoOp] /\ Same /\ Adv
EnvEv(t) == Call(t) \/ OpLink(t) \/ OpUnlink(t) \/ OpDrain(t) \/ RetKill(t) \/ Ret(t)

-----------------------------------------------------------------------------
(* actor tasks *)
\* status stores. Values below Draining are tracked in strict mode only (they do not matter to the tree)
StatusEv(a) ==
  Eff("status.set", a,
      /\ Ev.obj = a /\ (Strict => Ev.prev = st[a]) /\ NT
      /\ IF Ev.d = Stopping
            THEN \/ ABeginStop(a) \/ AKilledStopping(a) \/ ACStopping(a)
                 \/ (apc[a] \in {"killed", "poststop"} /\ st[a] >= Stopping /\ Same)   \* the loop's store after a kill in post_stop
            ELSE IF Ev.d = Stopped THEN AStopped(a)
            ELSE IF Strict THEN ASetStatus(a, Ev.d) ELSE Same)
ActorEv(a) ==
  \* the task is about to end on its own (stop, drain marker, failure, cancellation) / has picked up its Kill
  \/ Obs("obs.exit_begin", a, apc[a] = "live" /\ mayExit' = mayExit \cup {a}
                               /\ UNCHANGED <<st, Tree, sig, Proc, nenv, dev>> /\ NT)
  \/ Obs("obs.sig_taken", a, ASigTake(a) /\ NT)
  \/ StatusEv(a)
  \/ Int("guard.cleanup", a, ACleanupBegin(a) /\ NT)
  \/ Eff("term.kill", a, Ev.obj \in Actors /\ ATermKill(a, Ev.obj) /\ NT)
  \/ Eff("take.done", a, Ev.obj = acur[a] /\ Ev.d = Cardinality(Kids(acur[a])) /\ ATermTake(a) /\ NT)
  \/ Int("guard.terminated", a, phase[a] = "cleanup" /\ ATermDone(a) /\ NT)
  \/ Int("guard.notified", a, ANotify(a) /\ NT)
  \/ Int("guard.supread", a, (Strict => Ev.sup = sup[a]) /\ ASupReadSome(a) /\ NT)
  \/ Eff("unlink.done", a, Ev.obj = a /\ Ev.sup = asup[a] /\ (Ev.d = 1) = (sup[a] = asup[a]) /\ AUnlink(a) /\ NT)
  \/ Int("guard.unlinked", a, ASupReadNone(a) /\ NT)
  \/ Obs("obs.exit_done", a, apc[a] = "dead" /\ Same /\ NT)
  \* points that follow a step already taken
  \/ (Strict /\ IsA("term.take") /\ Ev.who = a /\ apc[a] = "t.pick" /\ Same /\ NT /\ Adv)
  \/ (Strict /\ IsA("guard.unlinked") /\ Ev.who = a /\ apc[a] = "c.setstopped" /\ Same /\ NT /\ Adv)
  \/ (Strict /\ IsA("guard.done") /\ Ev.who = a /\ apc[a] = "dead" /\ Same /\ NT /\ Adv)
\* steps that leave no line of their own: the visit of an actor that is not sent a Kill (directly
\* before that actor's take.done), and the end of handle_signal's sweep (strict: directly before
\* the exiting task's next line; lenient: any time, like every Int step)
Silent(a) ==
  /\ Live /\ Ev.who = a /\ Stay /\ NT
  /\ \/ Ev.a = "take.done" /\ (ATermNoKill(a, Ev.obj) \/ Dev_DrainingChildNotKilled(a, Ev.obj))
     \/ Strict /\ Ev.a \in {"status.set", "guard.cleanup"} /\ phase[a] = "early" /\ ATermDone(a)
SilentLenient(a) == ~Strict /\ Live /\ Stay /\ NT /\ phase[a] = "early" /\ ATermDone(a)

-----------------------------------------------------------------------------
(* end of run: the projected implementation state (public APIs + cfg-only accessors) must equal the
   specification state *)
SeqSet(q) == {q[i] : i \in 1..Len(q)}
FinOk(f) ==
  /\ f.x \in Actors
  /\ (IF Strict THEN st[f.x] = f.st ELSE Norm(st[f.x]) = Norm(f.st))
  /\ sup[f.x] = f.sup
  /\ Kids(f.x) = SeqSet(f.kids)
  /\ (f.closed # 2 => IsOpen(f.x) = (f.closed = 0))
  /\ (f.sigp # 2 => (sig[f.x] = "sent") = (f.sigp = 1))
\* C05 at the end of a run. q = 1 (engine T, quiescent): every actor beneath a stopped actor is stopped.
\* q = 0 (engine H, no actor left mid-exit): ... has been sent the Kill or is on its way out.
EndSubtree(q) == \A p \in Actors : st[p] = Stopped => \A d \in LkDesc(p) : IF q = 1 THEN st[d] = Stopped ELSE Signalled(d)
End ==
  /\ IsA("obs.end") /\ Adv /\ Same /\ NT
  /\ \A t \in TIds : top[t].k \in {"none", "spawn"}      \* a spawn whose task was aborted never returns
  /\ \A a \in Actors : apc[a] \in {"live", "poststop", "dead"}
  /\ \A i \in 1..Len(Ev.fin) : FinOk(Ev.fin[i])
  /\ (dev = {} => EndSubtree(Ev.q))
  /\ (dev # {} => PrintT(<<"DEVIATION", dev>>))

InternalLabels == {"guard.cleanup", "term.take", "guard.terminated", "guard.notified", "guard.supread", "guard.unlinked", "guard.done"}
SkipInternal == ~Strict /\ Live /\ Ev.a \in InternalLabels /\ Same /\ NT /\ Adv

\* reset: meta.init lists the run's actors with their initial status and supervisor; which tasks end on
\* their own is announced by obs.exit_begin
InitRec(a) == LET I == Ev.meta.init
                  S == {i \in 1..Len(I) : I[i].x = a}
              IN IF S = {} THEN [x |-> a, st |-> Running, sup |-> NoA, me |-> 0] ELSE I[CHOOSE i \in S : TRUE]
Reset ==
  /\ IsA("reset") /\ Adv
  /\ st' = [a \in Actors |-> InitRec(a).st]
  /\ sup' = [a \in Actors |-> InitRec(a).sup]
  /\ children' = [a \in Actors |-> {c \in Actors : InitRec(c).sup = a}]
  /\ lk' = [a \in Actors |-> InitRec(a).sup]
  /\ sig' = [a \in Actors |-> "none"] /\ mayExit' = {}
  /\ apc' = [a \in Actors |-> "live"] /\ phase' = [a \in Actors |-> "none"]
  /\ awork' = [a \in Actors |-> NoWork] /\ acur' = [a \in Actors |-> NoA] /\ asup' = [a \in Actors |-> NoA]
  /\ nenv' = 0 /\ dev' = {}
  /\ top' = [t \in TIds |-> NoOp]

TNext == \/ Reset \/ End \/ SkipInternal
         \/ \E t \in TIds : EnvEv(t)
         \/ \E a \in Actors : ActorEv(a) \/ Silent(a) \/ SilentLenient(a)

TInit == Init /\ l = 1 /\ top = [t \in TIds |-> NoOp] /\ TLCSet(42, 1)
TSpec == TInit /\ [][TNext]_tvars

\* the invariants of SupTree that also hold in the presence of the recorded deviation
SubtreeSignalledOrDev == dev # {} \/ SubtreeSignalled
RacingLinkOrDev == dev # {} \/ RacingLink

Progress == /\ TLCSet(42, IF l > TLCGet(42) THEN l ELSE TLCGet(42))
            \* EARLY=1 (lenient validation): one behaviour that explains the whole trace is enough, stop there
            /\ (IF l > N /\ IOEnv.EARLY = "1" THEN PrintT("ACCEPTED_EARLY") /\ TLCSet("exit", TRUE) ELSE TRUE)
Accepted == IF TLCGet(42) > N THEN TRUE
            ELSE /\ PrintT(<<"REJECTED_AT", TLCGet(42), Rec[TLCGet(42)]>>)
                 /\ FALSE
=============================================================================
