SPECIFICATION Spec
CONSTANTS
  Spawners = {"s1", "s2"}
  MaxAtt = 1
  Lookers = {}
  MaxLook = 0
  Proxies = {}
  PidFaults = FALSE
  ProxyUnregisters = FALSE
  Mutant = "toctou"
INVARIANTS
  OneWinner
PROPERTIES FailedSpawnInnocent
CHECK_DEADLOCK FALSE
