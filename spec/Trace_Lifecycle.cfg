SPECIFICATION TSpec
CONSTANTS
  Actors = {"S", "A", "B", "M", "L", "C"}
  NoA = "none"
  SupOf <- TrSupOf
  MaxMsgs <- TrMax
  MaxInject <- TrMax
  Outcomes = {"ok", "err", "panic"}
  MaxYield = 50
  EnvOps <- TrEnvOps
  KillCarriesState = FALSE
  Once = FALSE
  Local = {"L"}
  MonPairs <- TrMonPairs
  Undecodable = {}
  SweepKillsDraining = {TRUE}
CONSTRAINT Progress
INVARIANTS
  OrderOk PostStopOnlyGraceful NoOverlap NoStartAfterKill NoHandlerAfterStop
  OneTerminal StartedOrder DeadMeansClean FailedStartSilent DeadLeavesNothing NoChildOfDead
POSTCONDITION Accepted
CHECK_DEADLOCK FALSE
