SPECIFICATION TSpec
CONSTANTS
  Actors = {"S", "A", "B"}
  NoA = "none"
  SupOf <- TrSupOf
  MaxMsgs <- TrMax
  MaxInject <- TrMax
  Outcomes = {"ok", "err", "panic"}
  MaxYield = 50
  EnvOps <- TrEnvOps
  KillCarriesState = TRUE
  Once = FALSE
  Undecodable = {}
  SweepKillsDraining = {TRUE, FALSE}
CONSTRAINT Progress
INVARIANTS
  OrderOk PostStopOnlyGraceful NoOverlap NoStartAfterKill NoHandlerAfterStop
  OneTerminal StartedOrder DeadMeansClean FailedStartSilent NoChildOfDead
POSTCONDITION Accepted
CHECK_DEADLOCK FALSE
