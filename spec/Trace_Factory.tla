--------------------------- MODULE Trace_Factory ---------------------------
(* Trace validation for Factory.  Recorded per run: the configuration (obs.cfg), client operations
   (obs.submit / adjust / drain / update), worker-side observations logged by the harness worker
   (obs.w_new, obs.w_start, obs.w_end, obs.w_kill), worker / factory ends (obs.w_dead, obs.f_dead,
   from the guard.cleanup point), discard-handler calls, lifecycle-hook calls, acceptance-port
   replies, and the two internal labels factory.cast and factory.step (message kind + arguments +
   FactoryState snapshot at the end of every handler invocation).
   Effects a handler has on the world are logged while it runs, i.e. before its factory.step line:
   they are collected in `pre` and must equal, in order, the effects the transcription computes.
   strict:  every factory.step must be the transcription's step for the message at the head of the
            modelled mailbox and reproduce the snapshot; every cast must match.
   lenient: factory.step / factory.cast lines are skipped and the specification takes the handler
            steps silently; only observations are checked.                                        *)
EXTENDS Factory, Json, IOUtils, TLCExt

Rec == ndJsonDeserialize(IOEnv.TRACE)
Strict == IOEnv.STRICT = "1"
N == Len(Rec)

VARIABLES l, pre, wit, bad
tvars == <<vars, l, pre, wit, bad>>
Ev == Rec[l]
Adv == l' = l + 1
Live == l <= N
IsA(a) == Live /\ Ev.a = a /\ (Ev.a = "reset" \/ Ev.t = now)
Range(s) == {s[i] : i \in 1 .. Len(s)}
World == <<cfg, f, fmq, fsq, act, jb, mon>>
KeepPre == pre' = pre
E0 == UNCHANGED env

DummyCfg == [routing |-> "queuer", kph |-> [k \in Keys |-> [n \in 1 .. MaxW |-> 0]], ch |-> [k \in Keys |-> [n \in 1 .. MaxW |-> 0]]]
InitAct(n) == [i \in Incs |-> IF i <= n THEN [NoAct EXCEPT !.wid = i - 1, !.st = "alive"] ELSE NoAct]
Blank == /\ cfg = DummyCfg /\ f = InitF(0, -1, "none", NoLb, FALSE, TRUE) /\ fmq = <<>> /\ fsq = <<>>
         /\ act = InitAct(0) /\ jb = [j \in JobIds |-> NoJob] /\ now = 0 /\ mon = InitMon /\ env = 0 /\ pre = <<>> /\ wit = {} /\ bad = {}
Reset == /\ IsA("reset") /\ Adv
         /\ cfg' = DummyCfg /\ f' = InitF(0, -1, "none", NoLb, FALSE, TRUE) /\ fmq' = <<>> /\ fsq' = <<>>
         /\ act' = InitAct(0) /\ jb' = [j \in JobIds |-> NoJob] /\ now' = 0 /\ mon' = InitMon /\ pre' = <<>> /\ E0
Cfg == /\ IsA("obs.cfg") /\ Adv /\ KeepPre /\ E0
       /\ cfg' = [routing |-> Ev.routing,
                  kph |-> [k \in Keys |-> [n \in 1 .. MaxW |-> Ev.kph[k][n]]],
                  ch |-> [k \in Keys |-> [n \in 1 .. MaxW |-> Ev.ch[k][n]]]]
       /\ f' = InitF(Ev.workers, Ev.lim, Ev.mode,
                     IF Ev.rl[1] = 1 THEN LB!New(Ev.rl[2], Ev.rl[3], Ev.rl[4], Ev.rl[5], 0) ELSE NoLb,
                     Ev.rl[1] = 1, Ev.routing \in {"queuer", "sticky"})
       /\ act' = InitAct(Ev.workers)
       /\ UNCHANGED <<fmq, fsq, jb, now, mon>>
\* virtual time only moves when nothing is runnable: it is read off the next event
Time == /\ Live /\ Ev.a # "reset" /\ Ev.t > now /\ now' = Ev.t /\ l' = l /\ KeepPre /\ E0
        /\ UNCHANGED <<cfg, f, fmq, fsq, act, jb, mon>>

-----------------------------------------------------------------------------
(* effects observed while a handler runs *)
Buffer(e) == /\ pre' = Append(pre, e) /\ Adv /\ E0 /\ UNCHANGED vars
WNew == /\ IsA("obs.w_new")
        /\ IF Ev.inc <= f.ni /\ Ev.inc \in Incs /\ act[Ev.inc].st = "alive" /\ act[Ev.inc].wid = Ev.wid /\ Ev.inc \notin {pre[i].b : i \in {x \in 1 .. Len(pre) : pre[x].e = "spawn"}}
             /\ f.ni = Cardinality({i \in Incs : act[i].st # "none"}) /\ mon.hook = 0
             THEN Adv /\ KeepPre /\ E0 /\ UNCHANGED vars        \* the initial workers, started by pre_start
             ELSE Buffer(Fx("spawn", Ev.wid, Ev.inc, ""))
Discard == IsA("obs.discard") /\ Buffer(Fx("disc", Ev.id, Ev.h, Ev.reason))
\* the retry hook of a RetriableMessage fired (once per re-submission).  Either a worker that is being torn down dropped
\* the job, or a factory handler did (an effect of that handler), or it sat in the mailbox / state of a factory that has ended
\* (the hook fires, the re-submission fails)
Holder(j) == {a \in Incs : act[a].st \in {"alive", "closing"} /\ (act[a].run = j \/ \E x \in 1 .. Len(act[a].mb) : act[a].mb[x] = j)}
Retry == /\ IsA("obs.retry") /\ Ev.id \in JobIds /\ jb[Ev.id].sub
         /\ IF Holder(Ev.id) # {} THEN Adv /\ KeepPre /\ E0 /\ \E a \in Holder(Ev.id) : WorkerRetry(a, Ev.id, FactoryUp)
            ELSE IF f.up # "run" THEN jb[Ev.id].rleft > 0 /\ Adv /\ KeepPre /\ E0 /\ UNCHANGED vars
            ELSE Buffer(Fx("retry", Ev.id, 0, ""))
Cast == /\ IsA("factory.cast")
        /\ IF Strict THEN Buffer(Fx("cast", Ev.inc, Ev.id, IF Ev.d = 1 THEN "ok" ELSE "fail"))
                     ELSE Adv /\ KeepPre /\ E0 /\ UNCHANGED vars
Hook == /\ IsA("obs.hook")
        /\ IF Ev.name = "started" THEN /\ mon.hook = 0 /\ mon' = [mon EXCEPT !.hook = 1] /\ Adv /\ KeepPre /\ E0
                                       /\ UNCHANGED <<cfg, f, fmq, fsq, act, jb, now>>
           ELSE IF Ev.name = "draining" THEN Buffer(Fx("hook", 0, 0, "draining"))
           ELSE FactoryStopEnd /\ Adv /\ E0 /\ KeepPre

-----------------------------------------------------------------------------
(* factory steps *)
Visible(fx) == SelectSeq(fx, LAMBDA e : e.e \in (IF Strict THEN {"cast", "disc", "spawn", "hook", "retry"} ELSE {"disc", "spawn", "hook", "retry"}))
Clamp(v) == IF v >= LbBig THEN LbBig ELSE v
PendOk(wr, r) == \A k \in Keys : LET m == {p \in Range(r.pend) : p[1] = k} IN
                   IF m = {} THEN wr.pend[k] = 0 ELSE \E p \in m : p[2] = wr.pend[k]
WSnapOk(wr, r) == /\ r.inc = wr.inc /\ r.mq = wr.mq /\ Range(r.cur) = wr.cur /\ (r.dr = 1) = wr.dr
                  /\ r.lim = wr.lim /\ r.mode = wr.mode /\ PendOk(wr, r)
SnapOk(S, sn) ==
  /\ sn.q = S.q /\ sn.ps = S.ps /\ sn.drain = S.drain /\ sn.lim = S.lim /\ sn.mode = S.mode
  /\ Len(sn.w) = Cardinality(DOMAIN S.pool) /\ sn.nba = Cardinality(DOMAIN S.pool)
  /\ \A i \in 1 .. Len(sn.w) : sn.w[i].wid \in DOMAIN S.pool /\ WSnapOk(S.pool[sn.w[i].wid], sn.w[i])
  /\ (Deque => (sn.av = S.av /\ Range(sn.inq) = S.inq))
  /\ (cfg.routing = "rr" => sn.last = S.last)
  /\ (S.lbon => Clamp(sn.bal) = Clamp(S.lb.balance))
Fits(S) == Visible(S.fx) = pre /\ (Strict => SnapOk(S, Ev.snap))
Done(S0, S, mk) == Commit(S0, S, mk) /\ pre' = <<>> /\ E0 /\ UNCHANGED <<cfg, now>>
HeadIs(m, a, b, c) == fmq # <<>> /\ Head(fmq).m = m /\ Head(fmq).a = a /\ Head(fmq).b = b /\ Head(fmq).c = c
Free == {"calc", "pong", "pings", "stuck"}
StepStrict ==
  /\ Strict /\ IsA("factory.step") /\ Adv /\ f.up = "run" /\ (Ev.kind = "post_stop") = f.stopreq
  /\ LET k == Ev.kind IN
     IF k \in {"sup_term", "sup_fail"} THEN
          IF fsq # <<>> /\ Head(fsq).inc = Ev.a1
            THEN \E o \in Ords(f), rt \in BOOLEAN : LET S == HandleSupX(f, Ev.a1, o, rt) IN Fits(S) /\ Done(f, S, "sup") /\ fsq' = Tail(fsq) /\ fmq' = fmq \o Posts(S)
            ELSE FALSE
     ELSE IF k = "post_stop" THEN
          /\ pre = SelectSeq(DiscAllShutdown(f).fx, LAMBDA e : e.e \in {"disc", "retry"}) /\ SnapOk(Clean(DiscAllShutdown(f)), Ev.snap)
          /\ FactoryStopBegin /\ pre' = <<>> /\ E0
     ELSE IF k \in {"sup_started", "sup_other"} THEN Fits(f) /\ Done(f, f, "noop") /\ UNCHANGED <<fmq, fsq>>
     ELSE IF k \in Free THEN LET S == Handle(f, Msg(k, 0, 0, "", 0), IdOrd) IN Fits(S) /\ Done(f, S, k) /\ UNCHANGED <<fmq, fsq>>
     ELSE /\ CASE k = "dispatch" -> HeadIs(k, Ev.a1, Ev.a2, "")
               [] k = "finished" -> HeadIs(k, Ev.a1, Ev.a2, "")
               [] k = "adjust" -> HeadIs(k, Ev.a1, 0, "")
               [] k = "drain" -> HeadIs(k, 0, 0, "")
               [] k = "update" -> HeadIs(k, Ev.a1, Ev.a2, Ev.s1)
               [] k \in {"q_depth", "q_active", "q_cap"} -> HeadIs(k, 0, 0, "")
               [] OTHER -> FALSE
          /\ \E o \in Ords(f) : LET S == Handle(f, Head(fmq), o) IN Fits(S) /\ Done(f, S, k) /\ fmq' = Tail(fmq) \o Posts(S)
          /\ UNCHANGED fsq
\* lenient: the same handler steps, taken silently
SilentStep ==
  /\ ~Strict /\ Live /\ l' = l /\ f.up = "run" /\ ~f.stopreq
  /\ \/ /\ fsq # <<>>
        /\ \E o \in Ords(f), rt \in BOOLEAN : LET S == HandleSupX(f, Head(fsq).inc, o, rt) IN Fits(S) /\ Done(f, S, "sup")
        /\ fsq' = Tail(fsq) /\ UNCHANGED fmq
     \/ /\ fmq # <<>>
        /\ \E o \in Ords(f) : LET S == Handle(f, Head(fmq), o) IN Fits(S) /\ Done(f, S, Head(fmq).m) /\ fmq' = Tail(fmq) \o Posts(S)
        /\ UNCHANGED fsq
     \/ /\ FQ /\ \E i \in 1 .. Len(f.q) : Expired(f.q[i])
        /\ LET S == Handle(f, Msg("calc", 0, 0, "", 0), IdOrd) IN Fits(S) /\ Done(f, S, "calc")
        /\ UNCHANGED <<fmq, fsq>>
SilentStop == /\ ~Strict /\ Live /\ l' = l /\ f.stopreq
              /\ pre = SelectSeq(DiscAllShutdown(f).fx, LAMBDA e : e.e \in {"disc", "retry"})
              /\ FactoryStopBegin /\ pre' = <<>> /\ E0
SkipStep == ~Strict /\ IsA("factory.step") /\ Adv /\ KeepPre /\ E0 /\ UNCHANGED vars

-----------------------------------------------------------------------------
(* clients and workers *)
Sent == Ev.d = 1
TSubmit == /\ IsA("obs.submit") /\ Adv /\ KeepPre /\ E0
           /\ Ev.id \in JobIds /\ ~jb[Ev.id].sub /\ (~Sent => (f.stopreq \/ f.up # "run"))
           /\ jb' = [jb EXCEPT ![Ev.id] = [NoJob EXCEPT !.sub = TRUE, !.key = Ev.key, !.ttl = Ev.ttl, !.port = Ev.port = 1, !.prio = Ev.prio, !.rleft = Ev.retries, !.r0 = Ev.retries,
                                                        !.nd = Ev.nd = 1, !.born = now, !.undeliv = ~Sent, !.seq = mon.nseq + 1]]
           /\ mon' = [mon EXCEPT !.nseq = @ + 1]
           /\ fmq' = IF Sent THEN Append(fmq, Msg("dispatch", Ev.id, Ev.key, "", 0)) ELSE fmq
           /\ UNCHANGED <<cfg, f, fsq, act, now>>
TPost(m) == /\ Adv /\ KeepPre /\ E0 /\ fmq' = (IF Sent THEN Append(fmq, m) ELSE fmq) /\ UNCHANGED <<cfg, f, fsq, act, jb, now, mon>>
Client == \/ IsA("obs.adjust") /\ TPost(Msg("adjust", Ev.n, 0, "", 0))
          \/ IsA("obs.drain") /\ TPost(Msg("drain", 0, 0, "", 0))
          \/ IsA("obs.update") /\ TPost(Msg("update", Ev.lim, Ev.wc, Ev.mode, Ev.hg))
          \/ IsA("obs.q_sent") /\ TPost(Msg(Ev.kind, 0, 0, "", 0))
          \/ /\ IsA("obs.q_reply") /\ Adv /\ KeepPre /\ E0
             /\ IF Ev.d = 1 THEN /\ mon.ans # <<>> /\ Head(mon.ans) = Ev.v /\ mon' = [mon EXCEPT !.ans = Tail(@)]
                                  /\ UNCHANGED <<cfg, f, fmq, fsq, act, jb, now>>
                             ELSE UNCHANGED vars
          \* call_job: an answer can only come from the worker that completed this job; no answer = the job (with its port) was dropped
          \/ /\ IsA("obs.call_ret") /\ Adv /\ KeepPre /\ E0 /\ UNCHANGED vars
             /\ Ev.id \in JobIds /\ jb[Ev.id].sub
             /\ IF Ev.d = 1 THEN jb[Ev.id].h = 1 /\ Ev.v = Ev.id ELSE jb[Ev.id].h = 0
          \/ /\ IsA("obs.reply") /\ Adv /\ KeepPre /\ E0 /\ UNCHANGED vars
             /\ Ev.id \in JobIds /\ jb[Ev.id].port
             /\ IF Ev.res = "accepted" THEN jb[Ev.id].acc ELSE IF Ev.res = "returned" THEN jb[Ev.id].ret ELSE ~Replied(jb[Ev.id])
Worker ==
  \/ /\ IsA("obs.w_start") /\ Adv /\ KeepPre /\ E0 /\ Ev.inc \in Incs
     /\ WorkerStart(Ev.inc) /\ Head(act[Ev.inc].mb) = Ev.id /\ act[Ev.inc].wid = Ev.wid /\ KeyOf(Ev.id) = Ev.key
  \/ /\ IsA("obs.w_end") /\ Adv /\ KeepPre /\ E0 /\ Ev.inc \in Incs /\ act[Ev.inc].run = Ev.id
     /\ IF Ev.how = "ok"
          THEN /\ act[Ev.inc].st = "alive"
               /\ act' = [act EXCEPT ![Ev.inc].run = 0]
               /\ jb' = [jb EXCEPT ![Ev.id].h = IF @ < 2 THEN @ + 1 ELSE @]
               /\ fmq' = IF Sent THEN Append(fmq, Msg("finished", act[Ev.inc].wid, KeyOf(Ev.id), "", Ev.inc)) ELSE fmq
               /\ UNCHANGED <<cfg, f, fsq, now, mon>>
          ELSE WorkerEnd(Ev.inc, Ev.how)
  \/ /\ IsA("obs.w_kill") /\ Adv /\ KeepPre /\ E0 /\ Ev.inc \in Incs
     /\ IF act[Ev.inc].st \in {"alive", "closing"} THEN WorkerKill(Ev.inc) ELSE UNCHANGED vars
  \/ IsA("obs.w_stop") /\ Adv /\ KeepPre /\ E0 /\ Ev.inc \in Incs /\ WorkerStop(Ev.inc)
  \/ IsA("obs.w_closing") /\ Adv /\ KeepPre /\ E0 /\ Ev.inc \in Incs /\ WorkerClosing(Ev.inc)
  \/ IsA("obs.w_dead") /\ Adv /\ KeepPre /\ E0 /\ Ev.inc \in Incs /\ MayDie(Ev.inc) /\ WorkerDead(Ev.inc)
  \/ IsA("obs.f_dead") /\ Adv /\ KeepPre /\ E0 /\ f.up = "dead" /\ UNCHANGED vars

End == /\ IsA("obs.end") /\ Adv /\ KeepPre /\ E0 /\ UNCHANGED vars
       /\ pre = <<>> /\ bad = {}
       /\ Range(Ev.fin.live) = LiveIncs
       /\ (f.up = "dead" => Ev.fin.fst >= 5)
       /\ (~Strict => (fmq = <<>> \/ f.up # "run" \/ \A i \in 1 .. Len(fmq) : FALSE))
       /\ (mon.dev # {} => PrintT(<<"DEVIATION", mon.dev \cup wit>>))

TStep == Reset \/ Cfg \/ Time \/ WNew \/ Discard \/ Retry \/ Cast \/ Hook \/ StepStrict \/ SilentStep \/ SilentStop \/ SkipStep \/ TSubmit \/ Client \/ Worker \/ End
\* remember which property-level readings were broken at some state of the run
\* ... and which invariants of Factory (read with the recorded deviations) failed at some state: such a run
\* cannot pass its obs.end line, so it is rejected like any other unexplained run
Violated == {n \in {"OneFate", "PortOk", "LostOnePerDeath", "NoFactoryPanic", "KeyExclusive", "KeyFifo", "OneAtATime", "RoundRobinCovers",
                    "QueuerNoIdle", "ViewExact", "QueueBound", "HookOrder", "PoolConverges", "DrainComplete", "DrainRefuses", "RetryBudget"} :
               ~(CASE n = "OneFate" -> OneFate [] n = "PortOk" -> PortOk [] n = "LostOnePerDeath" -> LostOnePerDeath
                   [] n = "NoFactoryPanic" -> NoFactoryPanic [] n = "KeyExclusive" -> KeyExclusive [] n = "KeyFifo" -> KeyFifo
                   [] n = "OneAtATime" -> OneAtATime [] n = "RoundRobinCovers" -> RoundRobinCovers [] n = "QueuerNoIdle" -> QueuerNoIdle
                   [] n = "ViewExact" -> ViewExact [] n = "QueueBound" -> QueueBound [] n = "HookOrder" -> HookOrder
                   [] n = "RetryBudget" -> RetryBudget [] n = "PoolConverges" -> PoolConverges [] n = "DrainComplete" -> DrainComplete [] OTHER -> DrainRefuses)}
TNext == /\ TStep
         /\ wit' = (IF IsA("reset") THEN {} ELSE wit \cup Broken')
         /\ bad' = (IF IsA("reset") THEN {} ELSE bad \cup Violated')
         /\ (bad' # bad => PrintT(<<"INVARIANT", bad' \ bad, l>>))
TInit == Blank /\ l = 1 /\ TLCSet(42, 1)
TSpec == TInit /\ [][TNext]_tvars
Progress == /\ TLCSet(42, IF l > TLCGet(42) THEN l ELSE TLCGet(42))
            \* EARLY=1 (lenient validation): one behaviour that explains the whole trace is enough, stop there
            /\ (IF l > N /\ IOEnv.EARLY = "1" THEN PrintT("ACCEPTED_EARLY") /\ TLCSet("exit", TRUE) ELSE TRUE)
Accepted == IF TLCGet(42) > N THEN TRUE
            ELSE /\ PrintT(<<"REJECTED_AT", TLCGet(42), Rec[TLCGet(42)]>>)
                 /\ FALSE
=============================================================================
