SPECIFICATION Spec
CONSTANTS
  Spawners = {"s1", "s2"}
  MaxAtt = 2
  Lookers = {"l1"}
  MaxLook = 1
  Proxies = {"p1"}
  PidFaults = FALSE
  ProxyUnregisters = FALSE
  Mutant = "none"
INVARIANTS
  TypeOK OneWinner LookupNotDead LookupLive NoStaleUnregister Reusable DevOnlyByProxy
PROPERTIES FailedSpawnInnocent
CHECK_DEADLOCK FALSE
