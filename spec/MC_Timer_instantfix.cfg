SPECIFICATION Spec
CONSTANTS
  Timers = {"a", "b"}
  Kinds <- KindsB
  Periods <- PeriodsB
  MaxNow = 3
  EnvOps = {"stop", "kill", "abort"}
  Stalls = {}
  VirtualClock = TRUE
  Instant = TRUE
  UnstartedKillsInterval = FALSE
INVARIANTS
  TypeOk AfterOnce AfterResult NeverEarly Exact AbortStops NoDeliveryToDead HandledInOrder IntervalEnds Reasons IntervalSurvivesStart
CHECK_DEADLOCK FALSE
