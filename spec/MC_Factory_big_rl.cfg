SPECIFICATION MCSpec
CONSTANTS
  MaxW = 3
  Keys = {1, 2}
  MaxJ = 4
  MaxInc = 7
  LbBig = 1000
  FixRetire = FALSE
  Routing0 = "queuer"
  Workers0 = 1
  Lim0 <- Lim1
  Mode0 = "oldest"
  RlOn = TRUE
  RlRefill = 1
  RlInterval = 2
  RlMax = 1
  JobKeys <- Keys1121
  JobTtl <- Ttl4
  PortJobs = {2, 4}
  Ends = {"ok", "panic"}
  MaxKills = 0
  MaxFaults = 1
  Resizes <- Res12
  MayDrain = FALSE
  MaxT = 5
  TStep = 1
  RetryJobs = {}
  Retries = 0
  FreeOrder = FALSE
INVARIANTS
  OneFate PortOk LostOnePerDeath NoFactoryPanic KeyExclusive KeyFifo OneAtATime HashInPool RoundRobinCovers QueuerNoIdle ViewExact
  QueueBound HookOrder PoolConverges DrainComplete DrainRefuses
CHECK_DEADLOCK FALSE
