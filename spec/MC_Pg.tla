------------------------------ MODULE MC_Pg ------------------------------
(* Model-checking wrapper for Pg: every thread runs a fixed script of calls. *)
EXTENDS Pg
CONSTANT Ops          \* thread -> sequence of calls

J(s, g, as) == [k |-> "join", sc |-> s, gr |-> g, as |-> as]
L(s, g, as) == [k |-> "leave", sc |-> s, gr |-> g, as |-> as]
M(g, a) == [k |-> "mon", sc |-> DFLT, gr |-> g, as |-> <<a>>]
DM(g, a) == [k |-> "demon", sc |-> DFLT, gr |-> g, as |-> <<a>>]
SM(s, a) == [k |-> "smon", sc |-> s, gr |-> "*", as |-> <<a>>]
SDM(s, a) == [k |-> "sdemon", sc |-> s, gr |-> "*", as |-> <<a>>]
X(a) == [k |-> "exit", sc |-> "", gr |-> "", as |-> <<a>>]
Q(s, g) == [k |-> "query", sc |-> s, gr |-> g, as |-> <<>>]

AllRunning == [a \in Actors |-> Running]
A2Stopped == [a \in Actors |-> IF a = "a2" THEN Stopped ELSE Running]

\* exit racing with a join (duplicates, two actors), a repeated join and a group monitor
OpsExit == [t \in Threads |->
  CASE t = "t1" -> <<J("d", "g1", <<"a1", "a1", "a2">>), L("d", "g1", <<"a2">>)>>
    [] t = "t2" -> <<X("a1")>>
    [] t = "t3" -> <<M("g1", "a3"), J("d", "g1", <<"a1">>)>>
    [] OTHER -> <<>>]
\* a monitor that registers, unregisters and exits while the group changes
OpsMon == [t \in Threads |->
  CASE t = "t1" -> <<M("g1", "a3"), DM("g1", "a3")>>
    [] t = "t2" -> <<X("a3")>>
    [] t = "t3" -> <<J("d", "g1", <<"a1">>), SM("d", "a3")>>
    [] OTHER -> <<>>]
\* scope and world monitors, two scopes, exit of a member
OpsWorld == [t \in Threads |->
  CASE t = "t1" -> <<SM("s1", "a3"), SDM("s1", "a3")>>
    [] t = "t2" -> <<J("s1", "g1", <<"a1", "a2">>), L("s1", "g1", <<"a1", "a2">>)>>
    [] t = "t3" -> <<SM("ALL", "a3"), X("a1")>>
    [] OTHER -> <<>>]
\* two keys, an exiting member of both, a leave racing with the exit, queries
OpsTwoKeys == [t \in Threads |->
  CASE t = "t1" -> <<J("d", "g1", <<"a1">>), J("s1", "g2", <<"a1", "a2">>)>>
    [] t = "t2" -> <<X("a1"), Q("s1", "g2")>>
    [] t = "t3" -> <<L("s1", "g2", <<"a1">>), M("g1", "a1")>>
    [] OTHER -> <<>>]
\* demonitor racing with the first monitor of the same actor (StaleReverseMonitor), stopped actor
OpsStale == [t \in Threads |->
  CASE t = "t1" -> <<DM("g1", "a3"), J("d", "g1", <<"a2", "a1">>)>>
    [] t = "t2" -> <<M("g1", "a3"), M("g1", "a2")>>
    [] t = "t3" -> <<SDM("d", "a3"), SM("d", "a3")>>
    [] t = "t4" -> <<X("a3")>>
    [] OTHER -> <<>>]

Call(t) == opi[t] < Len(Ops[t]) /\ Begin(t, Ops[t][opi[t] + 1])
\* thorough tier: the exit race with a second exiting actor (the monitor) and a scope monitor
OpsBig == [t \in Threads |->
  CASE t = "t1" -> <<J("d", "g1", <<"a1", "a1", "a2">>), L("d", "g1", <<"a2">>)>>
    [] t = "t2" -> <<X("a1")>>
    [] t = "t3" -> <<M("g1", "a3"), J("d", "g1", <<"a1">>)>>
    [] t = "t4" -> <<SM("d", "a3"), X("a3")>>
    [] OTHER -> <<>>]

MCNext == \E t \in Threads : Call(t) \/ Step(t)
MCSpec == Init /\ [][MCNext]_vars

AllDone == Quiet /\ \A t \in Threads : opi[t] = Len(Ops[t])
\* vacuity companions (checked as invariants that must FAIL in dedicated runs)
NeverAllDone == ~AllDone
NeverStale == devs = {}
=============================================================================
