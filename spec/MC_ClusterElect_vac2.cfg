SPECIFICATION Spec
CONSTANTS
  Conns = {c1, c2}
  Outsiders = {}
  MaxNonce = 1
INVARIANTS
  NoDiallerTie
CHECK_DEADLOCK FALSE
