SPECIFICATION Spec
CONSTANTS
  Conns = {c1, c2}
  Outsiders = {}
  MaxNonce = 0
INVARIANTS
  NoDiallerTie
CHECK_DEADLOCK FALSE
