SPECIFICATION Spec
CONSTANTS
  H = 2
  Max = 3
  ChunkCap = 2
  Lens = {0, 1, 3, 4, 9}
  MaxFrames = 2
INVARIANTS
  OversizeNeverRead RequestsBounded BufferBounded ChunkingIndependent NothingAfterBad
CHECK_DEADLOCK TRUE
