SPECIFICATION Spec
CONSTANTS
  Conns = {c1, c3}
  Outsiders = {c3}
  MaxNonce = 1
INVARIANTS
  OneReadyPerPeer VisibleStable OutsiderInert Converged
CHECK_DEADLOCK TRUE
