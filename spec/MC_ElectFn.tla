------------------------------ MODULE MC_ElectFn ------------------------------
(* TLC wrapper for the function level of C18: every world of |Conns| connections between two nodes
   (initiator, nonce with repetitions and the legacy 0, every assignment of local actor ids on both
   sides, both name orders), every subset of them alive and every subset of those authenticated. *)
EXTENDS ElectFn
CONSTANTS Conns, MaxNonce, Mode, Ord
N == Cardinality(Conns)
\* a fixed enumeration of the connections (any bijection will do)
RECURSIVE Enum(_, _)
Enum(S, i) == IF S = {} THEN <<>> ELSE LET x == CHOOSE y \in S : TRUE IN <<x>> \o Enum(S \ {x}, i + 1)
OrdOf == LET sq == Enum(Conns, 1) IN [k \in Conns |-> CHOOSE i \in 1..N : sq[i] = k]
Ord3 == OrdOf
Ord4 == OrdOf
Worlds == [Conns -> [init : {"A", "B"}, nonce : 0..MaxNonce, ida : 1..N, idb : 1..N]]
Distinct(w) == \A k1, k2 \in Conns : k1 # k2 => w[k1].ida # w[k2].ida /\ w[k1].idb # w[k2].idb

VARIABLES w, swap, alive, au, phase
vars == <<w, swap, alive, au, phase>>

NameOf(n) == IF (n = "A") # swap THEN "a@h" ELSE "b@h"
Other(n) == IF n = "A" THEN "B" ELSE "A"
Cand(n, k) == [id |-> IF n = "A" THEN w[k].ida ELSE w[k].idb, srv |-> w[k].init # n, nonce |-> w[k].nonce]
ElectAt(n, S) == LET E == Elect(NameOf(n), NameOf(Other(n)), {Cand(n, x) : x \in S}) IN {k \in S : Cand(n, k) \in E}

\* each side stops its losers, closes propagate to the other side, repeat
RECURSIVE Fix(_)
Fix(S) == LET S2 == ElectAt("A", S) \cap ElectAt("B", S) IN IF S2 = S THEN S ELSE Fix(S2)

MirrorAgreement == Cardinality(Fix(alive)) = 1
NoMutualKill == ElectAt("A", alive) \cap ElectAt("B", alive) # {}
\* electing among the winners changes nothing (a stable authenticated set stays stable)
Idempotent == \A n \in {"A", "B"} : ElectAt(n, ElectAt(n, alive)) = ElectAt(n, alive)
\* every connection the two sides agree to keep survives a second round on both sides
AgreedIsStable == LET S == Fix(alive) IN ElectAt("A", S) = S /\ ElectAt("B", S) = S

\* the session table of node n holding the alive connections, those in au authenticated
Tbl(n) == [k \in Conns |-> IF k \in alive
             THEN [st |-> "open", id |-> Cand(n, k).id, srv |-> Cand(n, k).srv, peer |-> NameOf(Other(n)),
                   nonce |-> w[k].nonce, authed |-> k \in au, rdy |-> FALSE]
             ELSE NoSess]
\* the same table without the unauthenticated sessions other than the asking one
Strip(t, c) == [k \in Conns |-> IF t[k].st = "open" /\ ~t[k].authed /\ k # c THEN NoSess ELSE t[k]]

(* an unauthenticated session never changes a verdict about the others: check_candidate,
   is_elected and commit_authenticated only look at authenticated sessions plus the asking one;
   check_session (lookup by name and nonce) can be made more permissive by a same-nonce claim
   ("all may authenticate"), never less.                                                        *)
UnauthPowerless ==
  \A n \in {"A", "B"} : LET t == Tbl(n) this == NameOf(n) p == NameOf(Other(n)) IN
    \A c \in alive : LET s == Strip(t, c) IN
      /\ CheckCandidate(this, t, c) = CheckCandidate(this, s, c)
      /\ IsElected(this, t, c) = IsElected(this, s, c)
      /\ Commit(this, t, c).survives = Commit(this, s, c).survives
      /\ Commit(this, t, c).losers = Commit(this, s, c).losers
      /\ Visible(Commit(this, t, c).t) = Visible(Commit(this, s, c).t)
      /\ (CheckSession(this, t, p, t[c].nonce) = "other") => (CheckSession(this, s, p, t[c].nonce) = "other")
\* committing never leaves two authenticated sessions of which one would lose
CommitStabilises ==
  \A n \in {"A", "B"} : LET t == Tbl(n) this == NameOf(n) p == NameOf(Other(n)) IN
    \A c \in alive : LET r == Commit(this, t, c) vis == CandsFor(r.t, p, TRUE) IN
      (ElectT(this, t, p, au) = au) => ElectT(this, r.t, p, vis) = vis

\* two phases so that TLC's workers share the enumeration: the initial states fix initiators, nonces and
\* the name order; one step then picks the id assignment and the alive / authenticated subsets.
\* Worlds are symmetric under renaming of connections, so node A's ids follow the fixed order Ord
\* and only node B's assignment ranges over all permutations (Mode "mirror"); Mode "table" looks at
\* one node's table only (both name orders through swap) and ranges over the authenticated subsets.
Perms == {f \in [Conns -> 1..N] : \A k1, k2 \in Conns : k1 # k2 => f[k1] # f[k2]}
Init == /\ w \in [Conns -> [init : {"A", "B"}, nonce : 0..MaxNonce, ida : {1}, idb : {1}]] /\ swap \in BOOLEAN
        /\ alive = {} /\ au = {} /\ phase = 0
Next == /\ phase = 0 /\ phase' = 1 /\ UNCHANGED swap
        /\ \E fb \in (IF Mode = "mirror" THEN Perms ELSE {Ord}) :
              w' = [k \in Conns |-> [w[k] EXCEPT !.ida = Ord[k], !.idb = fb[k]]]
        /\ alive' \in (SUBSET Conns \ {{}})
        /\ au' \in (IF Mode = "mirror" THEN {{}} ELSE SUBSET alive')
Spec == Init /\ [][Next]_vars
Ph(P) == phase = 1 => P
I_MirrorAgreement == Ph(MirrorAgreement)
I_NoMutualKill == Ph(NoMutualKill)
I_Idempotent == Ph(Idempotent)
I_AgreedIsStable == Ph(AgreedIsStable)
I_UnauthPowerless == Ph(UnauthPowerless)
I_CommitStabilises == Ph(CommitStabilises)
=============================================================================
