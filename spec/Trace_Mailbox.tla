--------------------------- MODULE Trace_Mailbox ---------------------------
(* Trace validation for Mailbox: every line of an ndjson trace recorded from the real code must be
   explained by an action of Mailbox. STRICT=1: internal points are consumed one by one.
   STRICT=0 (lenient): only obs.* lines are consumed, internal actions are taken silently.         *)
EXTENDS Mailbox, Json, IOUtils, TLCExt

Rec == ndJsonDeserialize(IOEnv.TRACE)
Strict == IOEnv.STRICT = "1"
N == Len(Rec)

VARIABLE l
tvars == <<vars, l>>
Ev == Rec[l]
Adv == l' = l + 1
Stay == l' = l
Live == l <= N
IsA(a) == Live /\ Ev.a = a

\* an internal step of process `who`, logged under label `lbl`
Int(lbl, who, A) == IF Strict THEN IsA(lbl) /\ Ev.who = who /\ A /\ Adv
                              ELSE Live /\ A /\ Stay
\* an observation made by process `who`
Obs(lbl, who, A) == IsA(lbl) /\ Ev.who = who /\ A /\ Adv

SenderEv(s) ==
  \/ Obs("obs.send_begin", s, SBegin(s) /\ sk'[s] = Ev.k)
  \/ Int("send.status", s, SStatus(s) /\ (Strict => (Ev.d >= Draining) = (status >= Draining)))
  \/ Int("adm.iter", s, SAdmLoad(s) \/ SAdmRetry(s))
  \/ Int("send.admit", s, SAdmit(s) /\ (Strict => (Ev.d = 1) = (spc'[s] = "admitted")))
  \/ Int("send.enq", s, SEnqueue(s))
  \/ Int("adm.release", s, SRelease(s) /\ (Strict => Ev.d = adm.cnt))
  \/ Int("marker.iter", s, SMarkerLoad(s) \/ SMarkerRetry(s))
  \/ Int("marker.cas", s, SMarkerCas(s) /\ (Strict => (Ev.d = 1) = (spc'[s] = "markerEnq")))
  \/ (Live /\ SMarkerEnq(s) /\ Stay)      \* no point between the marker CAS and the enqueue
  \/ Obs("obs.send_ret", s, SReturn(s) /\ sk[s] = Ev.k /\ (Ev.d = 1) = (sprev[s] = "ok"))

DrainerEv(d) ==
  \/ Obs("obs.drain_begin", d, DBegin(d))
  \/ Int("drain.close", d, DClose(d))
  \/ Int("drain.status", d, DStatus(d))
  \/ Int("marker.iter", d, DMarkerLoad(d) \/ DMarkerRetry(d))
  \/ Int("marker.cas", d, DMarkerCas(d) /\ (Strict => (Ev.d = 1) = (dpc'[d] = "markerEnq")))
  \/ (Live /\ DMarkerEnq(d) /\ Stay)
  \/ Obs("obs.drain_ret", d, DReturn(d))

ConsumerEv ==
  \/ Obs("obs.consume", "c", Ev.kind = "msg" /\ Consume /\ Head(q) = <<Ev.s, Ev.k>>)
  \/ Obs("obs.consume", "c", Ev.kind = "drain" /\ ConsumeDrain)
  \/ Obs("obs.consume", "c", Ev.kind = "empty" /\ ~rxClosed /\ q = <<>> /\ UNCHANGED vars)
  \/ Obs("obs.quit", "c", ConsumerQuit)
  \/ Obs("obs.ports_dropped", "c", CDropPorts)
  \* a real actor task drops its ports without an observation of its own
  \/ (~Strict /\ Live /\ CDropPorts /\ Stay)
  \/ Int("status.set", "c", \E v \in {Stopping, Stopped} : CStatus(v) /\ (Strict => Ev.d = v))

WrongType == Obs("obs.wrong_ret", "w1", Ev.d = 1 /\ UNCHANGED vars)

\* end of run: the projected implementation state must equal the specification state
QJ(i) == IF q[i] = DrainItem THEN [s |-> "drain", k |-> 0] ELSE [s |-> q[i][1], k |-> q[i][2]]
EndOk ==
  /\ \A s \in Senders : spc[s] = "idle"
  /\ \A d \in Drainers : dpc[d] \in {"idle", "done"}
  /\ adm.cnt = Ev.cnt /\ adm.closed = (Ev.closed = 1) /\ adm.marker = (Ev.marker = 1)
  /\ status = Ev.status
  /\ rxClosed = (Ev.rxclosed = 1)
  /\ Len(q) = Len(Ev.q) /\ \A i \in 1..Len(q) : QJ(i) = Ev.q[i]
  \* C07: a drain that returned ends the actor: marker queued or already consumed
  /\ ((\E d \in Drainers : dpc[d] = "done") /\ cexit = "none") => (adm.marker /\ DrainItem \in Range(q))
  \* C02/C07: accepted messages were handled if the consumer left through the marker
  /\ cexit = "drained" => \A m \in Msg : sres[m] = "ok" => m \in Range(handled)
End == IsA("obs.end") /\ EndOk /\ UNCHANGED vars /\ Adv

\* lenient mode skips internal lines
SkipInternal == ~Strict /\ Live /\ Ev.a \notin {"obs.send_begin", "obs.send_ret", "obs.drain_begin", "obs.drain_ret",
                                                 "obs.consume", "obs.quit", "obs.ports_dropped", "obs.end", "obs.wrong_ret", "reset"}
                /\ UNCHANGED vars /\ Adv

Reset ==
  /\ IsA("reset") /\ Adv
  /\ status' = Running /\ adm' = [cnt |-> 0, closed |-> FALSE, marker |-> FALSE]
  /\ q' = <<>> /\ rxClosed' = FALSE
  /\ spc' = [s \in Senders |-> "idle"] /\ sk' = [s \in Senders |-> 0]
  /\ sprev' = [s \in Senders |-> "none"] /\ sres' = [m \in Msg |-> "none"]
  /\ seen' = [p \in Senders \cup Drainers |-> Adm0]
  /\ dpc' = [d \in Drainers |-> "idle"] /\ handled' = <<>> /\ cexit' = "none"
  /\ clock' = 0 /\ beginT' = [m \in Msg |-> 0] /\ endT' = [m \in Msg |-> 0] /\ drainRet' = 0

TNext == \/ Reset \/ End \/ SkipInternal \/ ConsumerEv \/ WrongType
         \/ \E s \in Senders : SenderEv(s)
         \/ \E d \in Drainers : DrainerEv(d)

TInit == Init /\ l = 1 /\ TLCSet(42, 1)
TSpec == TInit /\ [][TNext]_tvars

\* remember the furthest line reached (a constraint that is always true)
Progress == /\ TLCSet(42, IF l > TLCGet(42) THEN l ELSE TLCGet(42))
            \* EARLY=1 (lenient validation): one behaviour that explains the whole trace is enough, stop there
            /\ (IF l > N /\ IOEnv.EARLY = "1" THEN PrintT("ACCEPTED_EARLY") /\ TLCSet("exit", TRUE) ELSE TRUE)
Accepted == IF TLCGet(42) > N THEN TRUE
            ELSE /\ PrintT(<<"REJECTED_AT", TLCGet(42), Rec[TLCGet(42)]>>)
                 /\ FALSE
=============================================================================
