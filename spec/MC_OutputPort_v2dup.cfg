SPECIFICATION Spec
CONSTANTS
  Impl = "v2"
  Subs = {"s1", "s2", "s3"}
  SubActors = {"A", "B"}
  Target <- TargetA
  Filter <- FilterA
  Cap = 2
  MaxBatch = 3
  MaxPub = 3
  EnvOps = {"kill"}
INVARIANTS
  TypeOk InOrderNoDup NoGapV2 GapOnlyWhenLagged ForwardMonotone SendNeverBlocks OthersUnaffected
CHECK_DEADLOCK FALSE
