SPECIFICATION Spec
CONSTANTS
  Senders = {"s1", "s2", "s3"}
  Drainers = {"d1", "d2"}
  MsgsPer = 1
  ConsumerMayExit = TRUE
INVARIANTS
  TypeOK NothingAfterMarker MarkerUnique AtMostOnce ErrNeverHandled RealTimeFifo QueueFifo
  AfterDrainReturn DrainEnds OkHandledAtEnd OkNotLostWhileRunning
CHECK_DEADLOCK FALSE
