SPECIFICATION FairSpec
CONSTANTS
  Senders = {"s1", "s2"}
  Drainers = {"d1"}
  MsgsPer = 1
  ConsumerMayExit = FALSE
PROPERTIES DrainTerminates
CHECK_DEADLOCK FALSE
