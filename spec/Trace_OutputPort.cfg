SPECIFICATION TSpec
CONSTANTS
  Impl <- TrImpl
  Subs = {"s1", "s2", "s3", "s4", "s5"}
  SubActors = {"A", "B", "C"}
  Target <- TrTarget
  Filter <- TrFilter
  Cap = 16
  MaxBatch = 32
  MaxPub = 1000000
  EnvOps = {"stop", "kill", "dropport"}
CONSTRAINT Progress
INVARIANTS
  InOrderNoDup NoGapV2 GapOnlyWhenLagged ForwardMonotone
POSTCONDITION Accepted
CHECK_DEADLOCK FALSE
