--------------------------- MODULE MC_OutputPort ---------------------------
EXTENDS OutputPort
\* s1 -> A (everything), s2 -> B (even only), s3 -> A again (a second subscription of the same actor)
TargetA == [s \in Subs |-> IF s = "s2" THEN "B" ELSE "A"]
FilterA == [s \in Subs |-> IF s = "s2" THEN "even" ELSE "all"]
=============================================================================
