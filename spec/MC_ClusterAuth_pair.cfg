SPECIFICATION Spec
CONSTANTS
  Sessions = {"s1", "s2"}
  Roles <- RolesPair
  KnowsCookie = TRUE
  CheckReplies = {"Ok"}
  Acc = FALSE
  Reflection = FALSE
  CtlKinds = {"PgJoin", "Terminate", "Ping"}
  PidClasses = {"adv", "nonrem"}
INVARIANTS
  NoCookieNoEffect CloseAbsorbing EffectsOnlyAfterHandshake DeliverOnlyAuthorized OwnFaultOnly DeadIsClean
CHECK_DEADLOCK FALSE
