SPECIFICATION TSpec
CONSTANTS
  Timers = {"T1", "T2", "T3", "T4", "T5", "T6"}
  Kinds <- TrKinds
  Periods <- TrPeriods
  MaxNow = 1000000
  EnvOps = {"stop", "kill", "drain", "fail", "busy", "abort"}
  Stalls = {}
  VirtualClock = TRUE
  Instant = FALSE
  UnstartedKillsInterval = TRUE
CONSTRAINT Progress
INVARIANTS
  AfterOnce AfterResult NeverEarly Exact NoDeliveryToDead HandledInOrder IntervalEnds Reasons IntervalSurvivesStart
POSTCONDITION Accepted
CHECK_DEADLOCK FALSE
