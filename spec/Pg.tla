--------------------------------- MODULE Pg ---------------------------------
(* Process groups (ractor/src/pg.rs) and the exit path that cleans them up (actor_cell.rs
   set_status). Four indexes under different locks:
     map[key]   forward map  (scope, group) -> members + per-group listeners   (DashMap entry lock)
     index[s]   scope -> groups that have members                              (updated inside map regions)
     world[w]   scope-level / global listeners                                 (DashMap entry lock)
     rel[a]     reverse relations of one actor (memberships, group monitors, world monitors),
                an Arc<Mutex<..>> stored in a DashMap: it has an identity (`id`), threads hold
                clones (`loc.ref`), and an entry removed from the DashMap lives on as an orphan.
   One action per LOCK REGION of the code (a region = everything done while one map/world entry
   guard or one relation mutex is held); the join region is split further into one sub-step per
   actor (get-or-create relation, lock it, read the status, insert) with the entry lock modelled
   by `held`, because steps that only need a relation mutex (leave_all / demonitor_all taking the
   reverse sets) can run in the middle of it. Every action is followed in the code by one
   cfg-only note (`emit`) or parking point (`point`); labels are given with each action.
   Properties of C11 are the invariants at the end.                                              *)
EXTENDS Naturals, Sequences, FiniteSets, Bags, TLC

CONSTANTS Actors,       \* actor names
          Threads,      \* calling threads (process ids)
          Scopes,       \* scope names; "d" is the default scope (group monitors exist only there)
          Groups,       \* group names
          Remote,       \* actors with a remote-looking id (get_local_members leaves them out)
          St0,          \* initial status of each actor
          InLockCheck   \* TRUE = the code; FALSE = join trusts its pre-filter (negative self-test)

Running == 2  Draining == 4  Stopping == 5  Stopped == 6
None == "none"
ALL == "ALL"          \* the all-scopes sentinel of monitor_scope
DFLT == "d"
Keys == Scopes \X Groups
WKeys == Scopes \cup {ALL}
Range(s) == {s[i] : i \in DOMAIN s}

VARIABLES st,        \* status of each actor (only grows)
          map, index, world, rel,
          nid,       \* per actor: identities handed out so far for relation objects
          held,      \* map entry lock held across the sub-steps of a join region: key -> thread | None
          pc, cur, loc, opi,   \* per thread: program counter, current call, locals, calls begun
          inbox,     \* per actor: bag of ProcessGroupChanged events received on the supervision port
          mustIn, mustOut, reqd,   \* ghost: real-time obligations of completed join/leave calls
          orphDirty, \* ghost: somebody inserted into an orphaned relation object
          devs       \* ghost: named deviations met on the way

vars == <<st, map, index, world, rel, nid, held, pc, cur, loc, opi, inbox, mustIn, mustOut, reqd, orphDirty, devs>>

NoEntry == [p |-> FALSE, mem |-> {}, ls |-> {}]
NoWorld == [p |-> FALSE, ls |-> {}]
NoRel == [p |-> FALSE, id |-> 0, mem |-> {}, gmon |-> {}, wmon |-> {}]
NoOp == [k |-> "none", sc |-> "", gr |-> "", as |-> <<>>]
L0 == [acts |-> <<>>, todo |-> <<>>, acc |-> {}, stale |-> <<>>, ref |-> 0, ls |-> {}, keys |-> {},
       wkeys |-> {}, evs |-> <<>>, pay |-> <<>>, kind |-> "", nk |-> <<"", "">>, dirty |-> {}]

RelEmpty(r) == r.mem = {} /\ r.gmon = {} /\ r.wmon = {}
K(op) == <<op.sc, op.gr>>
A1(op) == op.as[1]
IsCur(a, id) == rel[a].p /\ rel[a].id = id

RECURSIVE Dedup(_)
Dedup(s) == IF s = <<>> THEN <<>>
            ELSE LET r == Dedup(SubSeq(s, 1, Len(s) - 1))  x == s[Len(s)]
                 IN IF x \in Range(r) THEN r ELSE Append(r, x)

Evt(kind, k, pay) == [k |-> kind, sc |-> k[1], gr |-> k[2], as |-> pay]
Deliver(targets, e) == [m \in Actors |-> IF m \in targets THEN inbox[m] (+) SetToBag({e}) ELSE inbox[m]]

StartPc(k) == CASE k = "join" -> "j.filter" [] k = "leave" -> "l.region" [] k = "mon" -> "m.rel"
                [] k = "smon" -> "sm.rel" [] k = "demon" -> "d.rel" [] k = "sdemon" -> "sd.rel"
                [] k = "exit" -> "x.stopping" [] k = "query" -> "q"

Init ==
  /\ st = St0
  /\ map = [k \in Keys |-> NoEntry] /\ index = [s \in Scopes |-> {}]
  /\ world = [w \in WKeys |-> NoWorld] /\ rel = [a \in Actors |-> NoRel] /\ nid = [a \in Actors |-> 0]
  /\ held = [k \in Keys |-> None]
  /\ pc = [t \in Threads |-> "idle"] /\ opi = [t \in Threads |-> 0] /\ cur = [t \in Threads |-> NoOp] /\ loc = [t \in Threads |-> L0]
  /\ inbox = [a \in Actors |-> EmptyBag]
  /\ mustIn = [k \in Keys |-> {}] /\ mustOut = [k \in Keys |-> Actors] /\ reqd = [k \in Keys |-> {}]
  /\ orphDirty = FALSE /\ devs = {}

-----------------------------------------------------------------------------
(* call and return (harness observations obs.call / obs.ret) *)
\* ghost: two calls conflict when one is a join and the other a leave of the same key, or an
\* exit; calls that overlap a conflicting call on an actor promise nothing about that actor
Conflict(o1, o2) == \/ (o1.k = "join" /\ o2.k = "leave" /\ K(o1) = K(o2))
                    \/ (o1.k = "leave" /\ o2.k = "join" /\ K(o1) = K(o2))
                    \/ (o1.k = "exit" /\ o2.k = "join") \/ (o1.k = "join" /\ o2.k = "exit")

Begin(t, op) ==
  /\ pc[t] = "idle"
  /\ cur' = [cur EXCEPT ![t] = op] /\ pc' = [pc EXCEPT ![t] = StartPc(op.k)]
  /\ opi' = [opi EXCEPT ![t] = @ + 1]
  /\ mustOut' = IF op.k = "join" THEN [mustOut EXCEPT ![K(op)] = @ \ Range(op.as)] ELSE mustOut
  /\ reqd' = IF op.k = "join" THEN [reqd EXCEPT ![K(op)] = @ \cup Range(op.as)] ELSE reqd
  /\ mustIn' = IF op.k = "leave" THEN [mustIn EXCEPT ![K(op)] = @ \ Range(op.as)]
               ELSE IF op.k = "exit" THEN [k \in Keys |-> mustIn[k] \ {A1(op)}] ELSE mustIn
  /\ loc' = [u \in Threads |->
               IF u = t
                 THEN [loc[t] EXCEPT !.dirty = UNION {Range(cur[v].as) : v \in {v \in Threads \ {t} : pc[v] # "idle" /\ Conflict(op, cur[v])}}]
                 ELSE IF pc[u] # "idle" /\ Conflict(op, cur[u])
                        THEN [loc[u] EXCEPT !.dirty = @ \cup Range(op.as)] ELSE loc[u]]
  /\ UNCHANGED <<st, map, index, world, rel, nid, held, inbox, orphDirty, devs>>

Ret(t) ==
  /\ pc[t] = "ret"
  /\ pc' = [pc EXCEPT ![t] = "idle"] /\ cur' = [cur EXCEPT ![t] = NoOp] /\ loc' = [loc EXCEPT ![t] = L0]
  /\ LET op == cur[t]  k == K(op) IN
     /\ mustIn' = IF op.k = "join"
                    THEN [mustIn EXCEPT ![k] = @ \cup {a \in Range(op.as) :
                                st[a] < Stopping /\ a \notin loc[t].dirty}]
                    ELSE mustIn
     /\ mustOut' = IF op.k = "leave"
                     THEN [mustOut EXCEPT ![k] = @ \cup {a \in Range(op.as) : a \notin loc[t].dirty}]
                     ELSE mustOut
  /\ UNCHANGED <<opi, st, map, index, world, rel, nid, held, inbox, reqd, orphDirty, devs>>

-----------------------------------------------------------------------------
(* join_scoped(scope, group, actors) *)

\* pre-filter on the statuses (lock-free loads); point pg.join.filter
JFilter(t) ==
  /\ pc[t] = "j.filter"
  /\ LET f == SelectSeq(cur[t].as, LAMBDA a : st[a] <= Draining) IN
     /\ loc' = [loc EXCEPT ![t].acts = f, ![t].todo = Dedup(f)]
     /\ pc' = [pc EXCEPT ![t] = IF f = <<>> THEN "ret" ELSE "j.region"]
  /\ UNCHANGED <<opi, st, map, index, world, rel, nid, held, cur, inbox, mustIn, mustOut, reqd, orphDirty, devs>>

\* inside the map[key] region, one distinct actor: get-or-create its relation, lock it, read the
\* status, insert the membership (or remember an empty relation of a stopping actor); note
\* pg.join.actor. The first sub-step takes the entry lock and creates the entry.
JActor(t) ==
  /\ pc[t] = "j.region" /\ loc[t].todo # <<>>
  /\ LET k == K(cur[t])  a == Head(loc[t].todo)
         r == IF rel[a].p THEN rel[a] ELSE [NoRel EXCEPT !.p = TRUE, !.id = nid[a] + 1]
         ok == IF InLockCheck THEN st[a] <= Draining ELSE TRUE IN
     /\ held[k] \in {None, t}
     /\ held' = [held EXCEPT ![k] = t]
     /\ map' = IF ~map[k].p THEN [map EXCEPT ![k] = [NoEntry EXCEPT !.p = TRUE]] ELSE map
     /\ nid' = IF rel[a].p THEN nid ELSE [nid EXCEPT ![a] = @ + 1]
     /\ IF ok
          THEN /\ rel' = [rel EXCEPT ![a] = [r EXCEPT !.mem = @ \cup {k}]]
               /\ loc' = [loc EXCEPT ![t].todo = Tail(@), ![t].acc = @ \cup {a}]
          ELSE /\ rel' = [rel EXCEPT ![a] = r]
               /\ loc' = [loc EXCEPT ![t].todo = Tail(@),
                                     ![t].stale = IF RelEmpty(r) THEN Append(@, <<a, r.id>>) ELSE @]
  /\ UNCHANGED <<opi, st, index, world, pc, cur, inbox, mustIn, mustOut, reqd, orphDirty, devs>>

AfterStale(joined) == IF joined = <<>> THEN "j.rm" ELSE "gn"

\* end of the region: members inserted, scope index updated, listeners copied, lock released;
\* point pg.join.commit
JCommit(t) ==
  /\ pc[t] = "j.region" /\ loc[t].todo = <<>>
  /\ LET k == K(cur[t])
         joined == SelectSeq(loc[t].acts, LAMBDA a : a \in loc[t].acc) IN
     /\ held[k] = t
     /\ map' = [map EXCEPT ![k].mem = @ \cup Range(joined)]
     /\ index' = IF joined # <<>> THEN [index EXCEPT ![k[1]] = @ \cup {k[2]}] ELSE index
     /\ held' = [held EXCEPT ![k] = None]
     /\ loc' = [loc EXCEPT ![t].ls = map[k].ls, ![t].pay = joined, ![t].kind = "J", ![t].nk = k,
                           ![t].acts = <<>>, ![t].acc = {}]
     /\ pc' = [pc EXCEPT ![t] = IF loc[t].stale # <<>> THEN "j.stale" ELSE AfterStale(joined)]
  /\ UNCHANGED <<opi, st, world, rel, nid, cur, inbox, mustIn, mustOut, reqd, orphDirty, devs>>

\* remove_empty_actor_relations: under the relation mutex, drop the DashMap entry if it is still
\* this object and owns nothing
RemoveEmptyRel(a, id) == IF IsCur(a, id) /\ RelEmpty(rel[a]) THEN [rel EXCEPT ![a] = NoRel] ELSE rel

\* stale-relation cleanup, one relation per step; point pg.join.stale
JStale(t) ==
  /\ pc[t] = "j.stale" /\ loc[t].stale # <<>>
  /\ LET x == Head(loc[t].stale) IN rel' = RemoveEmptyRel(x[1], x[2])
  /\ loc' = [loc EXCEPT ![t].stale = Tail(@)]
  /\ pc' = [pc EXCEPT ![t] = IF Len(loc[t].stale) > 1 THEN "j.stale" ELSE AfterStale(loc[t].pay)]
  /\ UNCHANGED <<opi, st, map, index, world, nid, held, cur, inbox, mustIn, mustOut, reqd, orphDirty, devs>>

RemoveIfEmpty(k) == IF map[k].p /\ map[k].mem = {} /\ map[k].ls = {} THEN [map EXCEPT ![k] = NoEntry] ELSE map
WRemoveIfEmpty(w) == IF world[w].p /\ world[w].ls = {} THEN [world EXCEPT ![w] = NoWorld] ELSE world

\* nobody was accepted: second region removes the entry if it is (still) empty; note pg.join.rm
JRm(t) ==
  /\ pc[t] = "j.rm" /\ held[K(cur[t])] = None
  /\ map' = RemoveIfEmpty(K(cur[t]))
  /\ pc' = [pc EXCEPT ![t] = "ret"]
  /\ UNCHANGED <<opi, st, index, world, rel, nid, held, cur, loc, inbox, mustIn, mustOut, reqd, orphDirty, devs>>

-----------------------------------------------------------------------------
(* notifications (join, leave and exit share them) *)

\* group listeners copied inside the region; points pg.join.gnotify / pg.leave.gnotify
GNotify(t) ==
  /\ pc[t] = "gn"
  /\ inbox' = Deliver(loc[t].ls, Evt(loc[t].kind, loc[t].nk, loc[t].pay))
  /\ pc' = [pc EXCEPT ![t] = "w1"]
  /\ UNCHANGED <<opi, st, map, index, world, rel, nid, held, cur, loc, mustIn, mustOut, reqd, orphDirty, devs>>

\* notify_world_listeners: the scope's listeners, then the all-scopes listeners, each read when it
\* is its turn; point pg.wnotify (twice)
WNotify(t) ==
  /\ pc[t] \in {"w1", "w2"}
  /\ LET w == IF pc[t] = "w1" THEN loc[t].nk[1] ELSE ALL IN
     inbox' = Deliver(world[w].ls, Evt(loc[t].kind, loc[t].nk, loc[t].pay))
  /\ pc' = [pc EXCEPT ![t] = IF pc[t] = "w1" THEN "w2"
                             ELSE IF cur[t].k # "exit" THEN "ret"
                             ELSE IF loc[t].evs = <<>> THEN "x.lend" ELSE "x.gn"]
  /\ UNCHANGED <<opi, st, map, index, world, rel, nid, held, cur, loc, mustIn, mustOut, reqd, orphDirty, devs>>

-----------------------------------------------------------------------------
(* leave_scoped(scope, group, actors): one region; the listeners are told about the caller's
   whole list whether or not anybody was a member (DESIGN section 6 item 4); point pg.leave.region *)
LRegion(t) ==
  /\ pc[t] = "l.region" /\ held[K(cur[t])] = None
  /\ LET k == K(cur[t])  as == Range(cur[t].as)  nm == map[k].mem \ as IN
     IF map[k].p
       THEN /\ rel' = [a \in Actors |-> IF a \in as /\ rel[a].p THEN [rel[a] EXCEPT !.mem = @ \ {k}] ELSE rel[a]]
            /\ map' = [map EXCEPT ![k] = IF nm = {} /\ map[k].ls = {} THEN NoEntry ELSE [@ EXCEPT !.mem = nm]]
            /\ index' = IF nm = {} THEN [index EXCEPT ![k[1]] = @ \ {k[2]}] ELSE index
            /\ loc' = [loc EXCEPT ![t].ls = map[k].ls, ![t].pay = cur[t].as, ![t].kind = "L", ![t].nk = k]
            /\ pc' = [pc EXCEPT ![t] = "gn"]
       ELSE /\ pc' = [pc EXCEPT ![t] = "ret"] /\ UNCHANGED <<rel, map, index, loc>>
  /\ UNCHANGED <<opi, st, world, nid, held, cur, inbox, mustIn, mustOut, reqd, orphDirty, devs>>

-----------------------------------------------------------------------------
(* monitor(group, actor) [default scope] and monitor_scope(scope, actor) *)
IsG(t) == cur[t].k \in {"mon", "demon"}
MKey(t) == <<DFLT, cur[t].gr>>

\* get_or_create_actor_relations before any entry lock; points pg.mon.rel / pg.smon.rel
MRel(t) ==
  /\ pc[t] \in {"m.rel", "sm.rel"}
  /\ LET a == A1(cur[t]) IN
     /\ rel' = IF rel[a].p THEN rel ELSE [rel EXCEPT ![a] = [NoRel EXCEPT !.p = TRUE, !.id = nid[a] + 1]]
     /\ nid' = IF rel[a].p THEN nid ELSE [nid EXCEPT ![a] = @ + 1]
     /\ loc' = [loc EXCEPT ![t].ref = IF rel[a].p THEN rel[a].id ELSE nid[a] + 1]
  /\ pc' = [pc EXCEPT ![t] = IF pc[t] = "m.rel" THEN "m.region" ELSE "sm.region"]
  /\ UNCHANGED <<opi, st, map, index, world, held, cur, inbox, mustIn, mustOut, reqd, orphDirty, devs>>

\* region: entry (created if absent) + relation mutex; status read inside; point pg.mon.region
MRegion(t) ==
  /\ pc[t] = "m.region" /\ held[MKey(t)] = None
  /\ LET k == MKey(t)  a == A1(cur[t])  e == IF map[k].p THEN map[k] ELSE [NoEntry EXCEPT !.p = TRUE] IN
     IF st[a] <= Draining
       THEN /\ map' = [map EXCEPT ![k] = [e EXCEPT !.ls = @ \cup {a}]]
            /\ rel' = IF IsCur(a, loc[t].ref) THEN [rel EXCEPT ![a].gmon = @ \cup {k}] ELSE rel
            /\ orphDirty' = (orphDirty \/ ~IsCur(a, loc[t].ref))
       ELSE /\ map' = [map EXCEPT ![k] = e] /\ UNCHANGED <<opi, rel, orphDirty>>
  /\ pc' = [pc EXCEPT ![t] = "m.post"]
  /\ UNCHANGED <<opi, st, index, world, nid, held, cur, loc, inbox, mustIn, mustOut, reqd, devs>>

\* point pg.smon.region
SMRegion(t) ==
  /\ pc[t] = "sm.region"
  /\ LET w == cur[t].sc  a == A1(cur[t])  e == IF world[w].p THEN world[w] ELSE [NoWorld EXCEPT !.p = TRUE] IN
     IF st[a] <= Draining
       THEN /\ world' = [world EXCEPT ![w] = [e EXCEPT !.ls = @ \cup {a}]]
            /\ rel' = IF IsCur(a, loc[t].ref) THEN [rel EXCEPT ![a].wmon = @ \cup {w}] ELSE rel
            /\ orphDirty' = (orphDirty \/ ~IsCur(a, loc[t].ref))
       ELSE /\ world' = [world EXCEPT ![w] = e] /\ UNCHANGED <<opi, rel, orphDirty>>
  /\ pc' = [pc EXCEPT ![t] = "sm.post"]
  /\ UNCHANGED <<opi, st, map, index, nid, held, cur, loc, inbox, mustIn, mustOut, reqd, devs>>

\* status read after the region; for a stopping actor a second region removes the entry if it is
\* empty; pg.mon.post / pg.smon.post (d=1: point inside the branch; d=0: note)
MPost(t) ==
  /\ pc[t] \in {"m.post", "sm.post"}
  /\ LET a == A1(cur[t])  g == pc[t] = "m.post" IN
     IF st[a] >= Stopping
       THEN /\ (g => held[MKey(t)] = None)
            /\ map' = IF g THEN RemoveIfEmpty(MKey(t)) ELSE map
            /\ world' = IF g THEN world ELSE WRemoveIfEmpty(cur[t].sc)
            /\ pc' = [pc EXCEPT ![t] = "m.relrm"]
       ELSE /\ pc' = [pc EXCEPT ![t] = "ret"] /\ UNCHANGED <<map, world>>
  /\ UNCHANGED <<opi, st, index, rel, nid, held, cur, loc, inbox, mustIn, mustOut, reqd, orphDirty, devs>>

\* remove_empty_actor_relations with the clone taken at the start; notes pg.mon.relrm / pg.smon.relrm
MRelRm(t) ==
  /\ pc[t] = "m.relrm"
  /\ rel' = RemoveEmptyRel(A1(cur[t]), loc[t].ref)
  /\ pc' = [pc EXCEPT ![t] = "ret"]
  /\ UNCHANGED <<opi, st, map, index, world, nid, held, cur, loc, inbox, mustIn, mustOut, reqd, orphDirty, devs>>

-----------------------------------------------------------------------------
(* demonitor(group, id) and demonitor_scope(scope, id) *)

\* get_actor_relations BEFORE the region (may find nothing); points pg.demon.rel / pg.sdemon.rel
DRel(t) ==
  /\ pc[t] \in {"d.rel", "sd.rel"}
  /\ loc' = [loc EXCEPT ![t].ref = IF rel[A1(cur[t])].p THEN rel[A1(cur[t])].id ELSE 0]
  /\ pc' = [pc EXCEPT ![t] = IF pc[t] = "d.rel" THEN "d.region" ELSE "sd.region"]
  /\ UNCHANGED <<opi, st, map, index, world, rel, nid, held, cur, inbox, mustIn, mustOut, reqd, orphDirty, devs>>

\* region: listener removed from the entry; the reverse set is updated only through the clone
\* fetched earlier. If that fetch found nothing and a monitor() of the same actor completed in
\* between, the reverse relation keeps the key although the listener is gone: named deviation
\* StaleReverseMonitor (internal only: the exit path tolerates it). Note pg.demon.region
DRegion(t) ==
  /\ pc[t] = "d.region" /\ held[MKey(t)] = None
  /\ LET k == MKey(t)  a == A1(cur[t])
         nls == map[k].ls \ {a}
         nrel == IF loc[t].ref # 0 /\ IsCur(a, loc[t].ref) THEN [rel EXCEPT ![a].gmon = @ \ {k}] ELSE rel IN
     /\ map' = IF map[k].p THEN [map EXCEPT ![k] = IF map[k].mem = {} /\ nls = {} THEN NoEntry ELSE [@ EXCEPT !.ls = nls]]
               ELSE map
     /\ rel' = nrel
     /\ devs' = IF k \in nrel[a].gmon THEN devs \cup {"StaleReverseMonitor"} ELSE devs
  /\ pc' = [pc EXCEPT ![t] = "ret"]
  /\ UNCHANGED <<opi, st, index, world, nid, held, cur, loc, inbox, mustIn, mustOut, reqd, orphDirty>>

\* note pg.sdemon.region
SDRegion(t) ==
  /\ pc[t] = "sd.region"
  /\ LET w == cur[t].sc  a == A1(cur[t])
         nls == world[w].ls \ {a}
         nrel == IF loc[t].ref # 0 /\ IsCur(a, loc[t].ref) THEN [rel EXCEPT ![a].wmon = @ \ {w}] ELSE rel IN
     /\ world' = IF world[w].p THEN [world EXCEPT ![w] = IF nls = {} THEN NoWorld ELSE [@ EXCEPT !.ls = nls]] ELSE world
     /\ rel' = nrel
     /\ devs' = IF w \in nrel[a].wmon THEN devs \cup {"StaleReverseMonitor"} ELSE devs
  /\ pc' = [pc EXCEPT ![t] = "ret"]
  /\ UNCHANGED <<opi, st, map, index, nid, held, cur, loc, inbox, mustIn, mustOut, reqd, orphDirty>>

-----------------------------------------------------------------------------
(* exit of an actor: set_status(Stopping) -> demonitor_all -> leave_all -> set_status(Stopped) *)

\* point status.set (d = 5); the cleanup runs only on the first transition to >= Stopping
XStopping(t) ==
  /\ pc[t] = "x.stopping"
  /\ LET a == A1(cur[t]) IN
     /\ st' = [st EXCEPT ![a] = IF @ < Stopping THEN Stopping ELSE @]
     /\ pc' = [pc EXCEPT ![t] = IF st[a] < Stopping THEN "x.dtake" ELSE "x.stopped"]
  /\ UNCHANGED <<opi, map, index, world, rel, nid, held, cur, loc, inbox, mustIn, mustOut, reqd, orphDirty, devs>>

DNext(ks, ws) == IF ks = {} /\ ws = {} THEN "x.dend" ELSE "x.dloop"

\* demonitor_all: take both monitor sets under the relation mutex; pg.xdem.take (d = -1: no relation)
XDemTake(t) ==
  /\ pc[t] = "x.dtake"
  /\ LET a == A1(cur[t]) IN
     IF rel[a].p
       THEN /\ loc' = [loc EXCEPT ![t].ref = rel[a].id, ![t].keys = rel[a].gmon, ![t].wkeys = rel[a].wmon]
            /\ rel' = [rel EXCEPT ![a].gmon = {}, ![a].wmon = {}]
            /\ pc' = [pc EXCEPT ![t] = DNext(rel[a].gmon, rel[a].wmon)]
       ELSE /\ pc' = [pc EXCEPT ![t] = "x.dend"] /\ UNCHANGED <<loc, rel>>
  /\ UNCHANGED <<opi, st, map, index, world, nid, held, cur, inbox, mustIn, mustOut, reqd, orphDirty, devs>>

\* one region per taken group key (any order); point pg.xdem.g
XDemG(t, k) ==
  /\ pc[t] = "x.dloop" /\ k \in loc[t].keys /\ held[k] = None
  /\ LET a == A1(cur[t])  nls == map[k].ls \ {a} IN
     map' = IF map[k].p THEN [map EXCEPT ![k] = IF map[k].mem = {} /\ nls = {} THEN NoEntry ELSE [@ EXCEPT !.ls = nls]]
            ELSE map
  /\ loc' = [loc EXCEPT ![t].keys = @ \ {k}]
  /\ pc' = [pc EXCEPT ![t] = DNext(loc[t].keys \ {k}, loc[t].wkeys)]
  /\ UNCHANGED <<opi, st, index, world, rel, nid, held, cur, inbox, mustIn, mustOut, reqd, orphDirty, devs>>

\* then one region per taken world key; point pg.xdem.w
XDemW(t, w) ==
  /\ pc[t] = "x.dloop" /\ loc[t].keys = {} /\ w \in loc[t].wkeys
  /\ LET a == A1(cur[t])  nls == world[w].ls \ {a} IN
     world' = IF world[w].p THEN [world EXCEPT ![w] = IF nls = {} THEN NoWorld ELSE [@ EXCEPT !.ls = nls]] ELSE world
  /\ loc' = [loc EXCEPT ![t].wkeys = @ \ {w}]
  /\ pc' = [pc EXCEPT ![t] = DNext({}, loc[t].wkeys \ {w})]
  /\ UNCHANGED <<opi, st, map, index, rel, nid, held, cur, inbox, mustIn, mustOut, reqd, orphDirty, devs>>

\* point cleanup.pgmon (actor_cell.rs, after demonitor_all)
XDemEnd(t) ==
  /\ pc[t] = "x.dend" /\ pc' = [pc EXCEPT ![t] = "x.ltake"]
  /\ UNCHANGED <<opi, st, map, index, world, rel, nid, held, cur, loc, inbox, mustIn, mustOut, reqd, orphDirty, devs>>

\* leave_all: take the memberships under the relation mutex; pg.xleave.take (d = -1: no relation)
XLeaveTake(t) ==
  /\ pc[t] = "x.ltake"
  /\ LET a == A1(cur[t]) IN
     IF rel[a].p
       THEN /\ loc' = [loc EXCEPT ![t].ref = rel[a].id, ![t].keys = rel[a].mem, ![t].evs = <<>>]
            /\ rel' = [rel EXCEPT ![a].mem = {}]
            /\ pc' = [pc EXCEPT ![t] = IF rel[a].mem = {} THEN "x.relrm" ELSE "x.lloop"]
       ELSE /\ pc' = [pc EXCEPT ![t] = "x.lend"] /\ UNCHANGED <<loc, rel>>
  /\ UNCHANGED <<opi, st, map, index, world, nid, held, cur, inbox, mustIn, mustOut, reqd, orphDirty, devs>>

\* one region per taken key (any order): remove the member, copy the listeners, fix the scope
\* index, drop an empty entry; point pg.xleave.g
XLeaveOne(t, k) ==
  /\ pc[t] = "x.lloop" /\ k \in loc[t].keys /\ held[k] = None
  /\ LET a == A1(cur[t])  nm == map[k].mem \ {a}  was == map[k].p /\ a \in map[k].mem IN
     /\ map' = IF was THEN [map EXCEPT ![k] = IF nm = {} /\ map[k].ls = {} THEN NoEntry ELSE [@ EXCEPT !.mem = nm]]
               ELSE map
     /\ index' = IF was /\ nm = {} THEN [index EXCEPT ![k[1]] = @ \ {k[2]}] ELSE index
     /\ loc' = [loc EXCEPT ![t].keys = @ \ {k}, ![t].evs = IF was THEN Append(@, <<k, map[k].ls>>) ELSE @]
  /\ pc' = [pc EXCEPT ![t] = IF loc[t].keys = {k} THEN "x.relrm" ELSE "x.lloop"]
  /\ UNCHANGED <<opi, st, world, rel, nid, held, cur, inbox, mustIn, mustOut, reqd, orphDirty, devs>>

\* point pg.xleave.relrm
XRelRm(t) ==
  /\ pc[t] = "x.relrm"
  /\ rel' = RemoveEmptyRel(A1(cur[t]), loc[t].ref)
  /\ pc' = [pc EXCEPT ![t] = IF loc[t].evs = <<>> THEN "x.lend" ELSE "x.gn"]
  /\ UNCHANGED <<opi, st, map, index, world, nid, held, cur, loc, inbox, mustIn, mustOut, reqd, orphDirty, devs>>

\* one Leave per group the actor was removed from, to the listeners copied in that region;
\* point pg.xleave.gnotify, then the two world notifications
XGNotify(t) ==
  /\ pc[t] = "x.gn" /\ loc[t].evs # <<>>
  /\ LET e == Head(loc[t].evs)  a == A1(cur[t]) IN
     /\ inbox' = Deliver(e[2], Evt("L", e[1], <<a>>))
     /\ loc' = [loc EXCEPT ![t].evs = Tail(@), ![t].kind = "L", ![t].nk = e[1], ![t].pay = <<a>>]
  /\ pc' = [pc EXCEPT ![t] = "w1"]
  /\ UNCHANGED <<opi, st, map, index, world, rel, nid, held, cur, mustIn, mustOut, reqd, orphDirty, devs>>

\* point cleanup.pgleave
XLeaveEnd(t) ==
  /\ pc[t] = "x.lend" /\ pc' = [pc EXCEPT ![t] = "x.stopped"]
  /\ UNCHANGED <<opi, st, map, index, world, rel, nid, held, cur, loc, inbox, mustIn, mustOut, reqd, orphDirty, devs>>

\* point status.set (d = 6); wait() returns only after this
XStopped(t) ==
  /\ pc[t] = "x.stopped"
  /\ st' = [st EXCEPT ![A1(cur[t])] = Stopped]
  /\ pc' = [pc EXCEPT ![t] = "ret"]
  /\ UNCHANGED <<opi, map, index, world, rel, nid, held, cur, loc, inbox, mustIn, mustOut, reqd, orphDirty, devs>>

-----------------------------------------------------------------------------
(* the six query functions, all computed from the forward map except which_scoped_groups (index) *)
QMembers(k) == map[k].mem
QLocalMembers(k) == map[k].mem \ Remote
QGroups == {g \in Groups : \E s \in Scopes : map[<<s, g>>].mem # {}}
QScopes == {s \in Scopes : \E g \in Groups : map[<<s, g>>].mem # {}}
QScopedGroups(s) == index[s]
QScopesAndGroups == {k \in Keys : map[k].mem # {}}

\* a thread calling the six functions back to back (harness observation obs.query)
Query(t) ==
  /\ pc[t] = "q" /\ \A k \in Keys : held[k] = None
  /\ pc' = [pc EXCEPT ![t] = "ret"]
  /\ UNCHANGED <<opi, st, map, index, world, rel, nid, held, cur, loc, inbox, mustIn, mustOut, reqd, orphDirty, devs>>

-----------------------------------------------------------------------------
Step(t) == \/ JFilter(t) \/ JActor(t) \/ JCommit(t) \/ JStale(t) \/ JRm(t) \/ GNotify(t) \/ WNotify(t)
           \/ LRegion(t) \/ MRel(t) \/ MRegion(t) \/ SMRegion(t) \/ MPost(t) \/ MRelRm(t)
           \/ DRel(t) \/ DRegion(t) \/ SDRegion(t)
           \/ XStopping(t) \/ XDemTake(t) \/ (\E k \in Keys : XDemG(t, k)) \/ (\E w \in WKeys : XDemW(t, w))
           \/ XDemEnd(t) \/ XLeaveTake(t) \/ (\E k \in Keys : XLeaveOne(t, k)) \/ XRelRm(t) \/ XGNotify(t)
           \/ XLeaveEnd(t) \/ XStopped(t) \/ Query(t) \/ Ret(t)

-----------------------------------------------------------------------------
(* Properties (C11) *)
TypeOK ==
  /\ \A a \in Actors : st[a] \in {Running, Draining, Stopping, Stopped}
  /\ \A k \in Keys : map[k].mem \subseteq Actors /\ map[k].ls \subseteq Actors /\ held[k] \in Threads \cup {None}
  /\ \A k \in Keys : ~map[k].p => (map[k].mem = {} /\ map[k].ls = {})
  /\ \A w \in WKeys : ~world[w].p => world[w].ls = {}
  /\ \A a \in Actors : ~rel[a].p => RelEmpty(rel[a])

\* Linearizable membership, as real-time obligations of completed calls: a join that returned
\* (actor alive, no leave/exit pending or started since) => member; a leave that returned (no join
\* pending or started since) => not a member; nobody is a member without a join asking for it
LinMustIn == \A k \in Keys : mustIn[k] \subseteq map[k].mem
LinMustOut == \A k \in Keys : mustOut[k] \cap map[k].mem = {}
LinOnlyRequested == \A k \in Keys : map[k].mem \subseteq reqd[k]

\* once Stopped is published (wait() returns after that) the actor is a member and a monitor of
\* nothing, in the forward structures and in its reverse relation, whatever raced with the exit
NoZombie == \A a \in Actors : st[a] = Stopped =>
              /\ \A k \in Keys : a \notin map[k].mem /\ a \notin map[k].ls
              /\ \A w \in WKeys : a \notin world[w].ls
              /\ RelEmpty(rel[a])
\* relation objects that were removed from the reverse index never gain content
OrphansClean == ~orphDirty

\* scope index <=> forward map, whenever the entry is not in the middle of a region
IndexAgrees == \A k \in Keys : held[k] = None => ((k[2] \in index[k[1]]) <=> (map[k].mem # {}))

Quiet == \A t \in Threads : pc[t] = "idle"
\* at quiescence: forward map <=> reverse relations, no leaked empty entries, no relation left
\* behind by a stopped actor
QuietAgree == Quiet =>
  /\ \A k \in Keys : held[k] = None /\ (map[k].p => (map[k].mem # {} \/ map[k].ls # {}))
  /\ \A w \in WKeys : world[w].p => world[w].ls # {}
  /\ \A a \in Actors :
       /\ rel[a].mem = {k \in Keys : a \in map[k].mem}
       /\ {k \in Keys : a \in map[k].ls} \subseteq rel[a].gmon
       /\ {w \in WKeys : a \in world[w].ls} \subseteq rel[a].wmon
       /\ ("StaleReverseMonitor" \notin devs =>
             /\ rel[a].gmon = {k \in Keys : a \in map[k].ls}
             /\ rel[a].wmon = {w \in WKeys : a \in world[w].ls})
       /\ (st[a] = Stopped => ~rel[a].p)
=============================================================================
